#include <simgrid/s4u.hpp>
#include <cstdio>
namespace sg4 = simgrid::s4u;
int main(int argc, char** argv)
{
  sg4::Engine e(&argc, argv);
  auto* zone = e.get_netzone_root();
  auto* h = zone->add_host("h", 1e9);
  zone->seal();
  h->add_actor("a", [] {
    auto m = sg4::Mutex::create(true);
    bool ok = m->try_lock();
    m->lock();
    m->unlock();
    printf("try_lock=%d owner after 2 acquisitions and 1 unlock: %s\n", ok, m->get_owner() ? "me" : "nobody");
    if (m->get_owner()) m->unlock();
  });
  e.run();
}
