// C03 (clock): EngineImpl::solve() with the models and the profile event set replaced by symbolic sources under their contracts.
// P_NM models (1..2), symbolic clock, symbolic next-event delays, symbolic next profile-event date, symbolic max_date.
#define VERIF_COMMON_STUBS
#include "verif.h"
#include "src/kernel/EngineImpl.hpp"
#include "simgrid/s4u/Engine.hpp"
#include <new>
#include "src/kernel/resource/profile/FutureEvtSet.hpp"
using simgrid::kernel::EngineImpl;
namespace res = simgrid::kernel::resource;
static double next_ev[2];   // what each model answers to next_occurring_event (>= 0, or -1: nothing to do)
static double upd_now[2], upd_delta[2];
static int upd_calls[2];
static double trace_date;   // date of the next availability-profile event (-1: none)
static int pops;
static double trace_date2;
class FakeModel : public res::Model {
public:
  int idx;
  FakeModel(int i) : res::Model(""), idx(i) {}
  double next_occurring_event(double) override { return next_ev[idx]; }
  void update_actions_state(double now, double delta) override
  {
    upd_calls[idx]++;
    upd_now[idx]   = now;
    upd_delta[idx] = delta;
  }
};
double simgrid::kernel::profile::FutureEvtSet::next_date() const { return trace_date; }
simgrid::kernel::profile::Event* simgrid::kernel::profile::FutureEvtSet::pop_leq(double, double*, res::Resource**)
{
  pops++;
  trace_date = trace_date2; // the events of that date are consumed: the set moves on to a strictly later date, or becomes empty
  return nullptr;           // (the application of profile events to resources is checked with C22: here the events carry no value to apply)
}
simgrid::kernel::profile::FutureEvtSet simgrid::kernel::profile::future_evt_set;
simgrid::kernel::profile::FutureEvtSet::~FutureEvtSet() {}
simgrid::kernel::profile::FutureEvtSet::FutureEvtSet() {}

extern "C" void harness_solve()
{
  new (&simgrid::s4u::Engine::on_time_advance) simgrid::xbt::signal<void(double)>(); // (static initialisers are not run: an empty signal)
  EngineImpl* e = static_cast<EngineImpl*>(calloc(1, sizeof(EngineImpl)));
  new (&e->models_) std::vector<res::Model*>();
  e->models_.reserve(2);
  double now = nondet_double();
  ASSUME(now >= 0.0 && now <= 1e15);
  EngineImpl::now_ = now;
  for (int i = 0; i < P_NM; i++) {
    e->models_.push_back(new FakeModel(i));
    next_ev[i] = nondet_double();
    ASSUME(next_ev[i] == -1.0 || (next_ev[i] >= 0.0 && next_ev[i] <= 1e15));
  }
  trace_date = nondet_double();
  ASSUME(trace_date == -1.0 || (trace_date >= now && trace_date <= 1e16)); // profile events are never in the past
  trace_date2 = nondet_double();
  ASSUME(trace_date2 == -1.0 || (trace_date2 > trace_date && trace_date2 <= 1e18 && trace_date2 > 1e17)); // (bound: at most one profile date inside the step)
  double max_date = nondet_double();
  ASSUME(max_date == -1.0 || (max_date >= now && max_date <= 1e16));
  double d = e->solve(max_date);
  double n = EngineImpl::now_;
  CHECK(n >= now, "the simulated clock never decreases");
  CHECK(d == -1.0 || d >= 0.0, "the step is a non-negative duration, or -1 when nothing remains to simulate");
  if (d >= 0.0) {
    CHECK(n == now + d, "the clock advances by exactly the returned step");
    for (int i = 0; i < P_NM; i++) {
      if (next_ev[i] >= 0.0)
        CHECK(d <= next_ev[i], "the step never jumps over the next event of a model (nobody observes an event after its date)");
      CHECK(upd_calls[i] == 1 && upd_now[i] == n && upd_delta[i] == d, "every model is told the new date and the elapsed time, once");
    }
    if (max_date != -1.0)
      CHECK(d <= max_date - now, "the step never exceeds the distance to the requested horizon"); // (now + d may round one ulp above the horizon)
  } else {
    CHECK(n == now, "when nothing remains the clock does not move");
    for (int i = 0; i < P_NM; i++)
      CHECK(next_ev[i] < 0.0 && upd_calls[i] == 0, "the simulation stops only when no model has a next event");
    CHECK(max_date == -1.0, "a requested horizon is always simulated up to");
  }
  verif_witness();
}
