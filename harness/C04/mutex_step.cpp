// C04: one real MutexImpl operation from an arbitrary invariant state of a given shape.
// Shape macros: P_REC (0/1) P_OWN (0/1) P_Q (queued acquisitions 0..3) P_BLK (bitmask: waiter k is blocked in wait_for)
//               P_ISS (0 = A0 (the owner when P_OWN), 1..P_Q = k-th waiter, P_Q+1 = outsider)  P_OP (0 lock, 1 lock_async, 2 try_lock, 3 unlock)
#define VERIF_COMMON_STUBS
#define VERIF_OWN_ABORT
#include "verif.h"
#include "src/kernel/activity/MutexImpl.hpp"
#include "simgrid/s4u/Host.hpp"
#include <new>
using namespace simgrid::kernel;
using activity::MutexImpl;
using actor::ActorImpl;

#define NA 5
static int answered[NA];
static ActorImpl* actors[NA];
static MutexImpl* m;
static int expect_abort;
static int d0;
static int dq[4] = {1, 1, 1, 1};

void simgrid::kernel::actor::ActorImpl::simcall_answer() { answered[pid_ - 1]++; }
bool simgrid::s4u::Host::is_on() const { return true; }
void simgrid::kernel::actor::ActorImpl::set_wannadie(bool v) { iwannadie_ = v; }
simgrid::kernel::actor::ObjectAccessSimcallItem::ObjectAccessSimcallItem() { simcall_owner_ = nullptr; }
extern "C" int MC_is_active() { return 0; }

static void check_unchanged(const char* unused)
{
  (void)unused;
  CHECK(m->get_owner() == (P_OWN ? actors[0] : nullptr), "refused operation leaves the owner unchanged");
  CHECK(m->ongoing_acquisitions_.size() == P_Q, "refused operation leaves the queue unchanged");
#if P_OWN && P_REC
  CHECK(m->recursive_depth == d0, "refused operation leaves the acquisition count unchanged");
#endif
  for (int q = 0; q < P_Q; q++)
    CHECK(m->ongoing_acquisitions_[q]->get_issuer() == actors[1 + q] && m->ongoing_acquisitions_[q]->recursive_depth_ == dq[q] &&
              not m->ongoing_acquisitions_[q]->is_granted(),
          "refused operation leaves every queued acquisition unchanged");
  for (int i = 0; i < NA; i++)
    CHECK(answered[i] == 0, "refused operation wakes nobody");
}

extern "C" void abort() noexcept
{
  CHECK(expect_abort, "abort() reached (xbt_assert / xbt_die failure)");
  if (expect_abort) {
    check_unchanged("");
    verif_witness();
  }
  ASSUME(false);
  __builtin_unreachable();
}

static ActorImpl* mk(int i)
{
  ActorImpl* a = static_cast<ActorImpl*>(calloc(1, sizeof(ActorImpl)));
  new (&a->waiting_synchros_) std::vector<activity::ActivityImplPtr>();
  a->simcall_.issuer_ = a;
  a->simcall_.call_   = actor::Simcall::Type::RUN_BLOCKING;
  a->pid_             = i + 1;
  a->refcount_        = 1;
  return a;
}

extern "C" void harness_mutex_step()
{
  for (int i = 0; i < NA; i++)
    actors[i] = mk(i);
  m = new MutexImpl(P_REC);
  // ---- pre-state of the requested shape, built with the real API in straight-line code
#if P_OWN
  m->lock_async(actors[0])->wait_for(actors[0], -1);
  for (int q = 0; q < P_Q; q++) {
    auto acq = m->lock_async(actors[1 + q]);
    if ((P_BLK >> q) & 1)
      acq->wait_for(actors[1 + q], -1);
  }
#endif
  // ---- havoc of the numeric state under the representation invariant
  d0 = nondet_int();
#if P_OWN
#if P_REC
  ASSUME(d0 >= 1 && d0 < 2000000000);
  for (int q = 0; q < P_Q; q++) {
    dq[q] = nondet_int();
    ASSUME(dq[q] >= 1 && dq[q] < 2000000000);
    m->ongoing_acquisitions_[q]->recursive_depth_ = dq[q];
  }
#else
  d0 = 1;
#endif
#endif
  m->recursive_depth = d0; // when the mutex is free the stale count is arbitrary
  for (int i = 0; i < NA; i++)
    answered[i] = 0;
  ActorImpl* iss    = actors[P_ISS];
  const bool is_own = P_OWN && P_ISS == 0;
  const bool is_wtr = P_OWN && P_ISS >= 1 && P_ISS <= P_Q;
  size_t nsync      = iss->waiting_synchros_.size();

#if P_OP == 0 || P_OP == 1 // lock = lock_async + wait_for ; lock_async alone
  auto acq = m->lock_async(iss);
#if P_OP == 0
  acq->wait_for(iss, -1);
#endif
  const int ans = (P_OP == 0) ? 1 : 0;
  if (not P_OWN) {
    CHECK(m->get_owner() == iss && m->recursive_depth == 1, "lock of a free mutex: issuer owns it with one acquisition");
    CHECK(answered[P_ISS] == ans && acq->is_granted() && acq->test(iss), "lock of a free mutex: granted and answered");
    CHECK(m->ongoing_acquisitions_.empty(), "lock of a free mutex queues nothing");
  } else if (is_own && P_REC) {
    CHECK(m->get_owner() == iss && m->recursive_depth == d0 + 1, "recursive re-lock by the owner adds one acquisition");
    CHECK(answered[P_ISS] == ans && acq->is_granted(), "recursive re-lock never blocks");
    CHECK(m->ongoing_acquisitions_.size() == P_Q, "recursive re-lock leaves the queue unchanged");
  } else if (is_wtr && P_REC) {
    CHECK(m->get_owner() == actors[0] && m->recursive_depth == d0, "lock of a busy mutex leaves owner and count unchanged");
    CHECK(acq.get() == m->ongoing_acquisitions_[P_ISS - 1].get() && acq->recursive_depth_ == dq[P_ISS - 1] + 1,
          "queued actor asking again for a recursive mutex: its pending acquisition counts one more");
    CHECK(m->ongoing_acquisitions_.size() == P_Q && answered[P_ISS] == 0 && not acq->is_granted(), "still queued, not answered");
  } else {
    CHECK(m->get_owner() == actors[0] && m->recursive_depth == d0, "lock of a busy mutex leaves owner and count unchanged");
    CHECK(m->ongoing_acquisitions_.size() == P_Q + 1 && m->ongoing_acquisitions_[P_Q].get() == acq.get(),
          "lock of a busy mutex is queued at the tail (FIFO)");
    CHECK(not acq->is_granted() && acq->recursive_depth_ == 1, "lock of a busy mutex is not granted");
    if (not is_own) // (re-locking a non-recursive mutex one already owns is undefined behaviour for POSIX and not specified by the property:
                    //  only exclusion and the queue discipline are checked for that shape)
      CHECK(answered[P_ISS] == 0 && not acq->test(iss), "lock of a busy mutex blocks: the issuer is not answered");
  }
  for (int q = 0; q < P_Q; q++)
    if (q != P_ISS - 1 || not P_REC)
      CHECK(m->ongoing_acquisitions_[q]->get_issuer() == actors[1 + q] && m->ongoing_acquisitions_[q]->recursive_depth_ == dq[q],
            "lock leaves the other queued acquisitions and their order unchanged");
  for (int i = 0; i < NA; i++)
    if (i != P_ISS)
      CHECK(answered[i] == 0, "lock wakes nobody else");
#elif P_OP == 2 // try_lock
  bool r = m->try_lock(iss);
  CHECK(iss->waiting_synchros_.size() == nsync && iss->simcall_.call_ == actor::Simcall::Type::RUN_BLOCKING, "try_lock never blocks");
  if (not P_OWN) {
    CHECK(r && m->get_owner() == iss, "try_lock of a free mutex succeeds");
    if (P_REC)
      CHECK(m->recursive_depth == 1, "try_lock of a free recursive mutex counts one acquisition");
  } else if (is_own && P_REC) {
    CHECK(r && m->get_owner() == iss && m->recursive_depth == d0 + 1, "try_lock by the owner of a recursive mutex adds one acquisition");
  } else {
    CHECK(not r, "try_lock of a busy mutex fails");
    check_unchanged("");
  }
  CHECK(m->ongoing_acquisitions_.size() == P_Q, "try_lock never queues");
  for (int i = 0; i < NA; i++)
    CHECK(answered[i] == 0, "try_lock wakes nobody");
#else // unlock
  expect_abort = not is_own;
  m->unlock(iss);
  CHECK(not expect_abort, "unlock by a non-owner must be refused");
  if (P_REC && d0 > 1) {
    CHECK(m->get_owner() == iss && m->recursive_depth == d0 - 1, "owner keeps a recursive mutex until its last unlock");
    CHECK(m->ongoing_acquisitions_.size() == P_Q, "non-final unlock leaves the queue unchanged");
    for (int i = 0; i < NA; i++)
      CHECK(answered[i] == 0, "non-final unlock wakes nobody");
  } else if (P_Q > 0) {
    CHECK(m->get_owner() == actors[1], "FIFO hand-off: the first queued actor becomes the owner");
    if (P_REC)
      CHECK(m->recursive_depth == dq[0], "hand-off restores the acquisition count recorded by the new owner");
    CHECK(m->ongoing_acquisitions_.size() == P_Q - 1, "hand-off dequeues exactly one acquisition");
    CHECK(answered[1] == ((P_BLK & 1) ? 1 : 0), "new owner is answered exactly once iff it is blocked on the acquisition");
    for (int i = 0; i < NA; i++)
      if (i != 1)
        CHECK(answered[i] == 0, "hand-off wakes nobody else");
    for (int q = 1; q < P_Q; q++)
      CHECK(m->ongoing_acquisitions_[q - 1]->get_issuer() == actors[1 + q] && m->ongoing_acquisitions_[q - 1]->recursive_depth_ == dq[q] &&
                not m->ongoing_acquisitions_[q - 1]->is_granted(),
            "hand-off keeps the order and counts of the remaining acquisitions");
  } else {
    CHECK(m->get_owner() == nullptr, "last unlock with empty queue frees the mutex");
    for (int i = 0; i < NA; i++)
      CHECK(answered[i] == 0, "freeing wakes nobody");
  }
#endif
  // exclusion: whoever is queued is not granted and does not test as owner
  for (size_t q = 0; q < m->ongoing_acquisitions_.size(); q++) {
    auto& a = m->ongoing_acquisitions_[q];
    if (a->get_issuer() != m->get_owner())
      CHECK(not a->is_granted() && not a->test(a->get_issuer()), "a queued acquisition of a non-owner is not granted");
  }
  verif_witness();
}
