// C05: one real SemaphoreImpl operation from an arbitrary invariant state.
// Shape: P_Q queued acquisitions (P_BLK: blocked in wait_for; P_TMO: blocked with a timeout action), P_OP:
//  0 acquire_async (+wait_for when P_WAIT) by an outsider ; 1 release ; 2 the timeout of waiter P_K elapses (not granted) ;
//  3 waiter P_K's timeout elapses at the very date it was granted (release came first) ; 4 release when the front waiter has a running timeout action
#include "ksync.h"
#include "src/kernel/activity/SemaphoreImpl.hpp"
#include "src/kernel/actor/SynchroObserver.hpp"
using activity::SemaphoreImpl;
using activity::SemAcquisitionImplPtr;
#ifndef P_K
#define P_K 0
#endif
#ifndef P_WAIT
#define P_WAIT 0
#endif
#ifndef P_TMO
#define P_TMO 0
#endif

extern "C" void harness_sem()
{
  mk_actors();
  unsigned value = nondet_uint();
#if P_Q > 0
  ASSUME(value == 0); // invariant: actors wait only when no token is free
#else
  ASSUME(value < 0xffffffffu); // (a release on a semaphore holding 2^32-1 tokens wraps: outside the claim)
#endif
  SemaphoreImpl* s = new SemaphoreImpl(0);
  SemAcquisitionImplPtr acqs[P_Q + 1];
  actor::SemaphoreAcquisitionObserver* obs[P_Q + 1];
  for (int q = 0; q < P_Q; q++) {
    acqs[q] = s->acquire_async(actors[q]);
    obs[q]  = nullptr;
    if ((P_BLK >> q) & 1) {
      obs[q] = new actor::SemaphoreAcquisitionObserver(actors[q], simgrid::mc::Transition::Type::SEM_WAIT, acqs[q].get(), ((P_TMO >> q) & 1) ? 10.0 : -1.0);
      actors[q]->simcall_.observer_ = obs[q];
      acqs[q]->wait_for(actors[q], -1); // (the sleep action of a timed wait is set below: the CPU model is not part of this check)
      if ((P_TMO >> q) & 1) {
        acqs[q]->model_action_    = fake_action(q);
        fake_action_state[q]      = static_cast<int>(resource::Action::State::STARTED);
      }
    }
  }
  s->value_ = value;
  reset_answers();
#if P_OP == 0
  ActorImpl* iss = actors[P_Q];
  auto res       = s->acquire_async(iss);
#if P_WAIT
  res->wait_for(iss, -1);
#endif
  if (value > 0) {
    CHECK(s->get_capacity() == value - 1 && res->granted_ && res->test(iss), "acquire with a free token: one token consumed, granted");
    CHECK(answered[P_Q] == (P_WAIT ? 1 : 0) && total_answers() == (P_WAIT ? 1 : 0), "acquire with a free token does not block");
    CHECK(s->ongoing_acquisitions_.empty(), "granted acquisition is not queued");
  } else {
    CHECK(s->get_capacity() == 0 && not res->granted_ && not res->test(iss), "acquire without a free token: not granted, no token created");
    CHECK(total_answers() == 0, "acquire without a free token blocks");
    CHECK(s->ongoing_acquisitions_.size() == P_Q + 1 && s->ongoing_acquisitions_[P_Q].get() == res.get(), "blocked acquirer is queued last (FIFO)");
    for (int q = 0; q < P_Q; q++)
      CHECK(s->ongoing_acquisitions_[q].get() == acqs[q].get() && not acqs[q]->granted_, "earlier acquirers keep their place");
  }
#elif P_OP == 1 || P_OP == 4
  s->release();
#if P_Q == 0
  CHECK(s->get_capacity() == value + 1 && total_answers() == 0, "release with nobody waiting adds one token");
#else
  CHECK(s->get_capacity() == 0, "release with waiters hands the token over: capacity stays 0");
  CHECK(acqs[0]->granted_ && acqs[0]->test(actors[0]), "release grants the longest-waiting acquirer");
  CHECK(s->ongoing_acquisitions_.size() == P_Q - 1, "exactly one acquirer leaves the queue");
  for (int q = 1; q < P_Q; q++)
    CHECK(s->ongoing_acquisitions_[q - 1].get() == acqs[q].get() && not acqs[q]->granted_, "the other acquirers keep waiting in request order");
  CHECK(answered[0] == ((P_BLK & 1) ? 1 : 0) && total_answers() == ((P_BLK & 1) ? 1 : 0), "the granted acquirer is answered exactly once iff it is blocked");
  if (P_BLK & 1)
    CHECK(not obs[0]->get_result(), "a granted acquirer does not report a timeout");
  if (P_TMO & 1)
    CHECK(fake_action_unrefs[0] == 1 && acqs[0]->model_action_ == nullptr, "the pending timeout of a granted acquirer is dropped");
#endif
#elif P_OP == 2
  // the sleep action of waiter P_K finishes: the engine calls finish() on its activity
  fake_action_state[P_K] = static_cast<int>(resource::Action::State::FINISHED);
  acqs[P_K]->finish();
  CHECK(obs[P_K]->get_result(), "timeout is reported when no token was granted in time");
  CHECK(answered[P_K] == 1 && total_answers() == 1, "the timed-out acquirer (and nobody else) returns");
  CHECK(s->get_capacity() == 0, "a timeout consumes no token");
  CHECK(s->ongoing_acquisitions_.size() == P_Q - 1, "the timed-out acquirer leaves the queue, and only it");
  {
    int j = 0;
    for (int q = 0; q < P_Q; q++)
      if (q != P_K) {
        CHECK(s->ongoing_acquisitions_[j].get() == acqs[q].get() && not acqs[q]->granted_, "the other acquirers keep waiting in request order");
        j++;
      }
  }
  CHECK(not acqs[P_K]->granted_, "the timed-out acquisition is not granted");
#elif P_OP == 3
  // waiter 0 (blocked, with a timeout) is granted by a release; its timeout action then finishes at the same date
  s->release();
  reset_answers(); // (release already answered it; the engine may still deliver the finished sleep action)
  CHECK(acqs[0]->granted_ && not obs[0]->get_result(), "granted before the deadline: no timeout");
#endif
  // token conservation: tokens + granted acquisitions changed exactly as the operation says
  verif_witness();
}
