// C06: one real ConditionVariableImpl operation. Shape: P_Q waiters blocked in a (non-MC, single-simcall) wait on the condition variable,
// P_TMO bitmask: waiter has a timeout action; P_MOWN: the mutex is held by another actor at the time of the operation; P_MQ: actors already queued on the mutex;
// P_OP: 0 signal, 1 broadcast, 2 timeout of waiter P_K elapses, 3 wait by the mutex owner (acquire_async + wait_for)
#define KSYNC_OWN_MC
#include "ksync.h"
#include "src/kernel/activity/ConditionVariableImpl.hpp"
#include "src/kernel/activity/MutexImpl.hpp"
#include "src/kernel/actor/SynchroObserver.hpp"
using activity::ConditionVariableImpl;
using activity::MutexImpl;
#ifndef P_K
#define P_K 0
#endif
#ifndef P_TMO
#define P_TMO 0
#endif
#ifndef P_MQ
#define P_MQ 0
#endif
#ifndef P_TMO_NEW
#define P_TMO_NEW 0
#endif
static int mc_active;
extern "C" int MC_is_active() { return mc_active; }
// actors: 0..P_Q-1 = cv waiters ; P_Q = other owner of the mutex (when P_MOWN) ; P_Q+1.. = actors queued on the mutex (P_MQ) ; last = fresh actor
#define A_OWNER P_Q
#define A_MQ0 (P_Q + 1)

extern "C" void harness_condvar()
{
  mk_actors();
  MutexImpl* m              = new MutexImpl(false);
  ConditionVariableImpl* cv = new ConditionVariableImpl();
  activity::ConditionVariableAcquisitionImplPtr acqs[P_Q + 1];
  actor::ConditionVariableObserver* obs[P_Q + 1];
  // each waiter locks the mutex, then waits on the condition (which releases the mutex): the real calls of s4u::ConditionVariable::wait (non-MC path)
  for (int q = 0; q < P_Q; q++) {
    m->lock_async(actors[q])->wait_for(actors[q], -1);
    obs[q] = new actor::ConditionVariableObserver(actors[q], simgrid::mc::Transition::Type::CONDVAR_NOMC, cv, m, ((P_TMO >> q) & 1) ? 10.0 : -1.0);
    actors[q]->simcall_.observer_ = obs[q];
    acqs[q]                       = cv->acquire_async(actors[q], m);
    acqs[q]->wait_for(actors[q], -1);
    if ((P_TMO >> q) & 1) { // timed wait: the sleep action is owned by the harness (the CPU model is not part of this check)
      acqs[q]->model_action_ = fake_action(q);
      fake_action_state[q]   = static_cast<int>(resource::Action::State::STARTED);
    }
    CHECK(m->get_owner() == nullptr, "waiting on a condition variable releases the mutex");
  }
#if P_MOWN
  m->lock_async(actors[A_OWNER])->wait_for(actors[A_OWNER], -1);
  for (int j = 0; j < P_MQ; j++)
    m->lock_async(actors[A_MQ0 + j])->wait_for(actors[A_MQ0 + j], -1);
#endif
  reset_answers();
  ActorImpl* mown = P_MOWN ? actors[A_OWNER] : nullptr;
#if P_OP == 0 || P_OP == 1
  // timeout actions of the waiters may be in any state when the notification arrives
  for (int q = 0; q < P_Q; q++)
    if ((P_TMO >> q) & 1) {
      int st = nondet_int();
      ASSUME(st == static_cast<int>(resource::Action::State::STARTED) || st == static_cast<int>(resource::Action::State::FINISHED));
      fake_action_state[q] = st;
    }
#if P_OP == 0
  cv->signal();
  const int woken = P_Q > 0 ? 1 : 0;
#else
  cv->broadcast();
  const int woken = P_Q;
#endif
  CHECK(cv->ongoing_acquisitions_.size() == P_Q - woken, "notify_one wakes exactly one waiter if any (else it is lost); notify_all wakes them all");
  for (int q = woken; q < P_Q; q++)
    CHECK(cv->ongoing_acquisitions_[q - woken].get() == acqs[q].get() && not acqs[q]->granted_, "the other waiters keep waiting, in order");
  for (int q = 0; q < woken; q++) {
    CHECK(acqs[q]->granted_, "the longest-waiting actors are the ones notified");
    CHECK(not obs[q]->get_result(), "a notified waiter does not report a timeout");
  }
  // a woken waiter returns only after re-acquiring its mutex
  if (woken > 0) {
    if (not P_MOWN) {
      CHECK(m->get_owner() == actors[0] && answered[0] == 1, "mutex free: the first woken waiter re-acquires it and returns");
      CHECK(m->ongoing_acquisitions_.size() == woken - 1, "the other woken waiters queue on the mutex");
      for (int q = 1; q < woken; q++)
        CHECK(m->ongoing_acquisitions_[q - 1]->get_issuer() == actors[q] && answered[q] == 0, "woken waiters wait for the mutex in wake-up order and do not return yet");
      CHECK(total_answers() == 1, "nobody else returns");
    } else {
      CHECK(m->get_owner() == mown && total_answers() == 0, "mutex busy: no woken waiter returns before re-acquiring it");
      CHECK(m->ongoing_acquisitions_.size() == P_MQ + woken, "woken waiters queue on the mutex behind earlier lockers");
      for (int q = 0; q < woken; q++)
        CHECK(m->ongoing_acquisitions_[P_MQ + q]->get_issuer() == actors[q], "woken waiters wait for the mutex in wake-up order");
    }
  } else
    CHECK(total_answers() == 0 && m->get_owner() == mown && m->ongoing_acquisitions_.size() == P_MQ, "a notification with no waiter changes nothing");
#elif P_OP == 2
  fake_action_state[P_K] = static_cast<int>(resource::Action::State::FINISHED);
  acqs[P_K]->finish(); // the engine delivers the finished sleep action
  CHECK(obs[P_K]->get_result(), "wait_for reports a timeout when it was not notified in time");
  CHECK(cv->ongoing_acquisitions_.size() == P_Q - 1, "the timed-out waiter leaves the condition variable, and only it");
  {
    int j = 0;
    for (int q = 0; q < P_Q; q++)
      if (q != P_K) {
        CHECK(cv->ongoing_acquisitions_[j].get() == acqs[q].get() && not acqs[q]->granted_, "the other waiters keep waiting, in order");
        j++;
      }
  }
  if (not P_MOWN)
    CHECK(m->get_owner() == actors[P_K] && answered[P_K] == 1 && total_answers() == 1, "mutex free: the timed-out waiter re-acquires it and returns");
  else {
    CHECK(m->get_owner() == mown && total_answers() == 0, "mutex busy: the timed-out waiter does not return before re-acquiring it");
    CHECK(m->ongoing_acquisitions_.size() == P_MQ + 1 && m->ongoing_acquisitions_[P_MQ]->get_issuer() == actors[P_K], "it queues on the mutex");
  }
#elif P_OP == 4 || P_OP == 5
  // model-checker path: wait is split into CONDVAR_ASYNC_LOCK, then CONDVAR_WAIT (which also asks for the mutex), then MUTEX_WAIT.
  // P_OP 4: the waiter is notified between the two simcalls; P_OP 5: it is not, and its wait has a timeout (no clock under the checker: it times out at once)
  mc_active                = 1;
  ActorImpl* iss           = actors[A_OWNER];
  auto acq                 = cv->acquire_async(iss, m); // first simcall (the actor owns the mutex: P_MOWN)
  CHECK(m->get_owner() == (P_MQ > 0 ? actors[A_MQ0] : nullptr), "the first half of wait releases the mutex");
  double timeout = (P_TMO_NEW ? 5.0 : -1.0);
#if P_OP == 4
  for (int q = 0; q < P_Q; q++) // earlier waiters are notified first (FIFO), then this one
    cv->signal();
  cv->signal();
  CHECK(acq->granted_, "notify_one reaches a waiter that has not started its second simcall yet");
#endif
  auto* o                 = new actor::ConditionVariableObserver(iss, simgrid::mc::Transition::Type::CONDVAR_WAIT, acq.get(), timeout);
  iss->simcall_.observer_ = o;
  reset_answers();
  acq->wait_for(iss, timeout); // second simcall
#if P_OP == 4
  CHECK(not o->get_result(), "a wait that was notified does not report a timeout");
  CHECK(answered[A_OWNER] == 1, "a notified wait completes its simcall");
#else
  if (P_TMO_NEW) {
    CHECK(o->get_result() && answered[A_OWNER] == 1, "an un-notified timed wait times out under the checker");
    CHECK(cv->ongoing_acquisitions_.size() == P_Q, "the timed-out waiter leaves the condition variable");
  } else {
    CHECK(answered[A_OWNER] == 0 && cv->ongoing_acquisitions_.size() == P_Q + 1, "an un-notified wait without timeout stays blocked");
  }
#endif
#else // wait by the current owner of the mutex
  ActorImpl* iss                = actors[A_OWNER];
  auto* o                       = new actor::ConditionVariableObserver(iss, simgrid::mc::Transition::Type::CONDVAR_NOMC, cv, m, -1.0);
  iss->simcall_.observer_       = o;
  auto acq                      = cv->acquire_async(iss, m);
  acq->wait_for(iss, -1);
  CHECK(cv->ongoing_acquisitions_.size() == P_Q + 1 && cv->ongoing_acquisitions_[P_Q].get() == acq.get() && not acq->granted_, "the new waiter is queued last");
  CHECK(answered[A_OWNER] == 0, "wait blocks");
  if (P_MQ > 0)
    CHECK(m->get_owner() == actors[A_MQ0] && answered[A_MQ0] == 1 && m->ongoing_acquisitions_.size() == P_MQ - 1, "waiting hands the mutex to the first queued locker");
  else
    CHECK(m->get_owner() == nullptr, "waiting releases the mutex");
#endif
  verif_witness();
}
