// C07: one arrival at a BarrierImpl holding P_Q waiters (P_BLK: which of them are blocked in wait_for), expected count symbolic.
#ifndef P_ROUND2
#define P_ROUND2 0
#endif
#ifndef P_MORE
#define P_MORE 0 // second-use shapes: how many more actors the barrier expects than will have arrived after the checked arrival
#endif
#include "ksync.h"
#include "src/kernel/activity/BarrierImpl.hpp"
using activity::BarrierImpl;

extern "C" void harness_barrier()
{
  mk_actors();
#if P_ROUND2
  // second use of the same barrier, through the real constructor and API only: a barrier of concrete size P_Q + 1 + P_MORE first releases one complete
  // group (actors P_Q+1 .. ), then P_Q actors arrive again and the checked arrival follows
  const unsigned expected = P_Q + 1 + P_MORE;
  BarrierImpl* b          = new BarrierImpl(static_cast<int>(expected));
  for (unsigned i = 0; i < expected; i++) {
    ActorImpl* a = actors[(P_Q + 1 + i) % NA];
    auto r       = b->acquire_async(a);
    if (i + 1 == expected)
      CHECK(r->granted_ && b->ongoing_acquisitions_.empty(), "first use: the group is released when the last actor arrives");
    else
      CHECK(not r->granted_, "first use: nobody is released before the last actor arrives");
  }
  activity::BarrierAcquisitionImplPtr acqs[P_Q + 1];
#else
  unsigned expected = nondet_uint();
  ASSUME(expected >= 1 && expected > P_Q); // invariant: fewer waiters than the barrier size
  // build the queue with the real API on a barrier that is large enough, then set the symbolic size
  BarrierImpl* b = new BarrierImpl(P_Q + 2);
  activity::BarrierAcquisitionImplPtr acqs[P_Q + 1];
#endif
  for (int q = 0; q < P_Q; q++) {
    acqs[q] = b->acquire_async(actors[q]);
    if ((P_BLK >> q) & 1)
      acqs[q]->wait_for(actors[q], -1);
  }
#if not P_ROUND2
  b->expected_actors_ = expected;
#endif
  reset_answers();
  ActorImpl* iss = actors[P_Q];
  auto res       = b->acquire_async(iss);
#if P_WAIT
  res->wait_for(iss, -1);
#endif
  if (expected == P_Q + 1) { // the group is complete
    CHECK(b->ongoing_acquisitions_.empty(), "complete group: the barrier is re-armed (queue empty)");
    CHECK(res->granted_ && res->test(iss), "complete group: the last arrival is granted");
    int k = 0;
    for (int q = 0; q < P_Q; q++) {
      CHECK(acqs[q]->granted_, "complete group: every waiter is granted");
      if ((P_BLK >> q) & 1) {
        CHECK(answered[q] == 1, "complete group: every blocked waiter is answered exactly once");
        CHECK(k < n_answers && answer_log[k] == q, "complete group: waiters are released in arrival order");
        k++;
      } else
        CHECK(answered[q] == 0, "a waiter that is not blocked yet is not answered");
    }
    CHECK(answered[P_Q] == (P_WAIT ? 1 : 0), "the last arrival returns from wait at once");
    CHECK(n_answers == k + (P_WAIT ? 1 : 0), "nobody else is answered");
  } else { // incomplete group: nobody may leave
    CHECK(total_answers() == 0, "incomplete group: no wait returns");
    CHECK(b->ongoing_acquisitions_.size() == P_Q + 1 && b->ongoing_acquisitions_[P_Q].get() == res.get(), "incomplete group: the arrival is queued last");
    CHECK(not res->granted_ && not res->test(iss), "incomplete group: the arrival is not granted");
    for (int q = 0; q < P_Q; q++)
      CHECK(not acqs[q]->granted_ && b->ongoing_acquisitions_[q].get() == acqs[q].get(), "incomplete group: earlier waiters keep waiting, in order");
  }
  verif_witness();
}
