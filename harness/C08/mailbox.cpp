// C08: mailbox matching and data copy on the real MailboxImpl.cpp / CommImpl.cpp.
// P_MODE 0: find_matching_comm on a queue of P_Q pending comms with symbolic type, tag and (optional) own filter; P_REMOVE: remove the match
//           P_DONE: search the done queue of a permanent-receiver mailbox instead
// P_MODE 1: CommImpl::copy_data with symbolic sizes / flags / payload
// P_MODE 2: MailboxImpl::remove of the P_K-th queued comm
#include "ksync.h"
#include "src/kernel/activity/CommImpl.hpp"
#include "src/kernel/activity/MailboxImpl.hpp"
#include <functional>
using activity::CommImpl;
using activity::CommImplPtr;
using activity::CommImplType;
using activity::MailboxImpl;
#ifndef P_Q
#define P_Q 1
#endif
#ifndef P_K
#define P_K 0
#endif
#ifndef P_REMOVE
#define P_REMOVE 0
#endif
#ifndef P_DONE
#define P_DONE 0
#endif
#ifndef P_EXP
#define P_EXP -1
#endif
#ifndef P_WANT
#define P_WANT 0
#endif
#ifndef P_REJ
#define P_REJ 0
#endif
#ifndef P_NULLF
#define P_NULLF 0
#endif
// match data are pointers to tag cells (no integer/pointer casts: those are opaque to the solver front end)
static long tagcells[8];
static int ncells;
static long tagof(void* p) { return *static_cast<long*>(p); }
static void* astag(long t)
{
  tagcells[ncells] = t;
  return &tagcells[ncells++];
}
#define ANY 7L
// the filter an MPI-like receiver installs: equal tags, or a wildcard on my side
static bool my_filter(void* mine, void* theirs, CommImpl*) { return tagof(mine) == ANY || tagof(mine) == tagof(theirs); }
// the filter a queued comm may carry: it refuses one symbolic tag value
static long refused[4];
static int which_comm(CommImpl* c);
static CommImpl* comms_raw[4];
static int my_calls;

static unsigned char srcbuf[8], dstbuf[8];
static int copies;
static size_t copied_len;
static void copy_fun(CommImpl* comm, void* buff, size_t n)
{
  copies++;
  copied_len = n;
  for (size_t i = 0; i < n && i < 8; i++)
    static_cast<unsigned char*>(comm->dst_buff_)[i] = static_cast<unsigned char*>(buff)[i];
}

extern "C" void harness_mailbox()
{
#if P_MODE == 0 || P_MODE == 2
  std::string name;
  MailboxImpl* mb = new MailboxImpl(name);
  CommImplPtr comms[P_Q + 1];
  int types[P_Q + 1];
  long tags[P_Q + 1];
  int filt[P_Q + 1];
  for (int i = 0; i < P_Q; i++) {
    comms[i]     = CommImplPtr(new CommImpl());
    comms_raw[i] = comms[i].get();
    types[i]     = nondet_int() & 1;
#if P_MODE == 0 && P_EXP >= 0
    // removal is checked on shapes where the position of the match is fixed (the erase position decides container sizes):
    // the comms before P_EXP have the other type, comm P_EXP has the wanted type and no filter; everything behind it stays symbolic
    if (i < P_EXP)
      types[i] = ((P_REJ >> i) & 1) ? P_WANT : 1 - P_WANT; // P_REJ: right type, but the queued comm's own filter refuses the searcher (tag 2)
    if (i == P_EXP)
      types[i] = P_WANT;
#endif
    tags[i]      = nondet_int();
    ASSUME(tags[i] >= 0 && tags[i] <= 3);
    filt[i]    = nondet_int() & 1;
#if P_MODE == 0 && P_EXP >= 0
    if (i <= P_EXP)
      filt[i] = 0;
#endif
    refused[i] = nondet_int();
    ASSUME(refused[i] >= 0 && refused[i] <= 3);
#if P_MODE == 0 && P_EXP >= 0
    if (i < P_EXP && ((P_REJ >> i) & 1)) {
      filt[i]    = 1;
      refused[i] = 2;
    }
#endif
    comms[i]->set_type(types[i] ? CommImplType::RECEIVE : CommImplType::SEND);
    void* td                  = astag(tags[i]); // (both slots carry the tag: the real code reads the one that corresponds to the comm's type)
    comms[i]->dst_match_data_ = td;
    comms[i]->src_match_data_ = td;
#if P_MODE == 0
    {
      long r              = refused[i];
      int on              = filt[i];
      comms[i]->match_fun = [r, on](void*, void* other, CommImpl*) { return not on || tagof(other) != r; };
    }
#endif
#if P_DONE
    comms[i]->set_mailbox(mb);
    mb->push_done(comms[i]);
#else
    mb->push(comms[i]);
#endif
  }
#if P_MODE == 0
  int want   = nondet_int() & 1; // type I am looking for
#if P_EXP >= 0
  want = P_WANT;
#endif
  long mytag = nondet_int();
  ASSUME((mytag >= 0 && mytag <= 3) || mytag == ANY);
  int usefilter = nondet_int() & 1;
#if P_EXP >= 0
  usefilter = 0;
  if (P_REJ)
    mytag = 2;
#endif
  CommImplPtr me(new CommImpl());
  std::function<bool(void*, void*, CommImpl*)> f;
  if (not P_NULLF) // P_NULLF: the searcher has no filter at all (plain put/get)
    f = [usefilter](void* mine, void* theirs, CommImpl* c) { return not usefilter || my_filter(mine, theirs, c); };

  CommImplPtr got = mb->find_matching_comm(want ? CommImplType::RECEIVE : CommImplType::SEND, f, astag(mytag), me, P_DONE, P_REMOVE);
  // reference: the oldest queued comm of the wanted type accepted by both filters
  int exp = -1;
  for (int i = P_Q - 1; i >= 0; i--) {
    bool ok = types[i] == want && (not usefilter || mytag == ANY || mytag == tags[i]) && (not filt[i] || mytag != refused[i]);
    if (ok)
      exp = i;
  }
  auto& queue = P_DONE ? mb->done_comm_queue_ : mb->comm_queue_;
  if (exp < 0) {
    CHECK(got == nullptr, "no acceptable comm: nothing is returned");
    CHECK(queue.size() == P_Q, "no match leaves the queue unchanged");
  } else {
    CHECK(got.get() == comms[exp].get(), "the oldest comm accepted by both filters is the one matched");
    CHECK(got->get_mailbox() == nullptr, "a matched comm leaves its mailbox");
    CHECK(queue.size() == (P_REMOVE ? P_Q - 1 : P_Q), "exactly the matched comm is dequeued (when asked), so it is consumed at most once");
  }
  {
    int j = 0;
    for (int i = 0; i < P_Q; i++) {
      if (P_REMOVE && i == exp)
        continue;
      CHECK(queue[j].get() == comms[i].get(), "the other pending comms keep their order");
      if (i != exp)
        CHECK(comms[i]->get_mailbox() == mb, "unmatched comms stay in the mailbox");
      j++;
    }
  }
#else
  mb->remove(comms[P_K]);
  CHECK(mb->comm_queue_.size() == P_Q - 1 && comms[P_K]->get_mailbox() == nullptr, "remove takes exactly that comm out");
  {
    int j = 0;
    for (int i = 0; i < P_Q; i++)
      if (i != P_K) {
        CHECK(mb->comm_queue_[j].get() == comms[i].get(), "the other pending comms keep their order");
        j++;
      }
  }
#endif
#else // copy_data
  CommImplPtr c(new CommImpl());
  size_t ssize = nondet_ulong(), dsize = nondet_ulong();
  ASSUME(ssize <= 8 && dsize <= 8);
  int has_src = nondet_int() & 1, has_dsz = nondet_int() & 1, already = nondet_int() & 1;
  unsigned char old[8];
  for (int i = 0; i < 8; i++) {
    srcbuf[i] = nondet_uchar();
    dstbuf[i] = nondet_uchar();
    old[i]    = dstbuf[i];
  }
  size_t dsz          = dsize;
  c->src_buff_        = has_src ? srcbuf : nullptr;
  c->src_buff_size_   = ssize;
  c->dst_buff_        = dstbuf;
  c->dst_buff_size_   = has_dsz ? &dsz : nullptr;
  c->copied_          = already;
  c->copy_data_fun    = copy_fun;
  c->copy_data();
  size_t n = ssize < dsize ? ssize : dsize;
  if (has_src && has_dsz && not already) {
    CHECK(dsz == n, "the receiver learns the number of bytes actually copied");
    CHECK(copies == (n > 0 ? 1 : 0) && (n == 0 || copied_len == n), "min(sent size, receive buffer size) bytes are copied, once");
    for (int i = 0; i < 8; i++)
      CHECK(dstbuf[i] == ((size_t)i < n ? srcbuf[i] : old[i]), "payload bytes arrive intact and nothing else is written");
    CHECK(c->copied_, "the comm remembers that its data was copied");
    c->copy_data(); // the other end calls it too
    CHECK(copies == (n > 0 ? 1 : 0) && dsz == n, "the second end does not copy again");
  } else {
    CHECK(copies == 0 && dsz == dsize, "nothing to copy: no effect");
    for (int i = 0; i < 8; i++)
      CHECK(dstbuf[i] == old[i], "nothing to copy: receive buffer untouched");
  }
#endif
  verif_witness();
}
