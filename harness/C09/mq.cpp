// C09: message-queue matching on the real MessageQueueImpl.cpp. P_Q queued messages; the first message of the wanted type sits at P_EXP (-1: none);
// messages before it have the other type; the type of those behind it is symbolic. P_MODE 0: find_matching_message ; 1: remove of the P_K-th
#include "ksync.h"
#include "src/kernel/activity/MessImpl.hpp"
#include "src/kernel/activity/MessageQueueImpl.hpp"
using activity::MessageQueueImpl;
using activity::MessImpl;
using activity::MessImplPtr;
using activity::MessImplType;
#ifndef P_EXP
#define P_EXP -1
#endif
#ifndef P_K
#define P_K 0
#endif
#ifndef P_WANT
#define P_WANT 0
#endif

extern "C" void harness_mq()
{
  std::string name;
  MessageQueueImpl* mq = new MessageQueueImpl(name);
  MessImplPtr ms[P_Q + 1];
  int types[P_Q + 1];
  long payloads[P_Q + 1];
  for (int i = 0; i < P_Q; i++) {
    ms[i]    = MessImplPtr(new MessImpl());
    types[i] = nondet_int() & 1;
#if P_MODE == 0
    if (P_EXP < 0 || i < P_EXP)
      types[i] = 1 - P_WANT;
    else if (i == P_EXP)
      types[i] = P_WANT;
#endif
    payloads[i] = nondet_long();
    ms[i]->set_type(types[i] ? MessImplType::GET : MessImplType::PUT);
    ms[i]->set_payload(&payloads[i]);
    mq->push(ms[i]);
  }
#if P_MODE == 0
  MessImplPtr got = mq->find_matching_message(P_WANT ? MessImplType::GET : MessImplType::PUT);
  if (P_EXP < 0) {
    CHECK(got == nullptr && mq->queue_.size() == P_Q, "no message of the wanted kind: nothing is returned, nothing is dequeued");
  } else {
    CHECK(got.get() == ms[P_EXP].get(), "the oldest queued message of the wanted kind is the one matched");
    CHECK(got->get_payload() == &payloads[P_EXP] && *static_cast<long*>(got->get_payload()) == payloads[P_EXP], "its payload is the one that was put");
    CHECK(got->get_queue() == nullptr && mq->queue_.size() == P_Q - 1, "the matched message is dequeued, so it is consumed at most once");
  }
  {
    int j = 0;
    for (int i = 0; i < P_Q; i++)
      if (i != P_EXP) {
        CHECK(mq->queue_[j].get() == ms[i].get() && ms[i]->get_queue() == mq, "the other queued messages keep their order");
        j++;
      }
  }
#else
  mq->remove(ms[P_K]);
  CHECK(mq->queue_.size() == P_Q - 1 && ms[P_K]->get_queue() == nullptr, "remove takes exactly that message out");
  {
    int j = 0;
    for (int i = 0; i < P_Q; i++)
      if (i != P_K) {
        CHECK(mq->queue_[j].get() == ms[i].get(), "the other queued messages keep their order");
        j++;
      }
  }
#endif
  verif_witness();
}
