// C12: the timeout machinery of ActivityImpl::wait_for / wait_any_for (the base implementation used by exec, comm, I/O and mess activities).
// The timer set by the real code is captured (Timer::set stub) and fired by the harness at the deadline with a symbolic state of the model action.
// P_MODE 0: wait_for on a running activity ; 1: wait_for on an activity that is already finished ; 2: wait_any_for on P_N activities, deadline fires
//        3: wait_any_for where activity P_K is already finished
#define KSYNC_OWN_MC
#include "ksync.h"
#include "simgrid/kernel/Timer.hpp"
#include "simgrid/s4u/Engine.hpp"
#include "src/kernel/actor/WaitTestObserver.hpp"
#ifndef P_N
#define P_N 1
#endif
#ifndef P_K
#define P_K 0
#endif
#ifndef P_LATE
#define P_LATE 0 // 1: the activity gets its model action only after the wait is armed ; 2: it never gets one
#endif
#ifndef P_SYMTIME
#define P_SYMTIME 0
#endif
extern "C" int MC_is_active() { return 0; }
static double the_clock;
static double timer_date;
static int timers_set;
static simgrid::xbt::Task<void()> timer_task;
static simgrid::kernel::timer::Timer* fake_timer = reinterpret_cast<simgrid::kernel::timer::Timer*>(&timers_set);
double simgrid::s4u::Engine::get_clock() { return the_clock; }
simgrid::kernel::timer::Timer* simgrid::kernel::timer::Timer::set(double date, simgrid::xbt::Task<void()>&& callback)
{
  timers_set++;
  timer_date = date;
  timer_task = std::move(callback);
  return fake_timer;
}
static int timers_removed;
void simgrid::kernel::timer::Timer::remove() { timers_removed++; }
static int finished[4];
class FakeAct : public activity::ActivityImpl_T<FakeAct> {
public:
  int idx = 0;
  void finish() override
  { // what every real finish() ends with: the waiting actor is released
    finished[idx]++;
    while (not simcalls_.empty()) {
      auto* issuer = unregister_first_simcall();
      if (issuer)
        issuer->simcall_answer();
    }
  }
};

extern "C" void harness_timedwait()
{
  mk_actors();
  ActorImpl* iss = actors[0];
#if P_SYMTIME
  the_clock      = nondet_double(); // exactness of the deadline: clock and timeout are arbitrary doubles, the timer is not fired
  double timeout = nondet_double();
  ASSUME(the_clock >= 0.0 && the_clock <= 1e15 && timeout >= 0.0 && timeout <= 1e15);
#else
  the_clock      = 5.0; // (firing the deadline is decided path by path: dates are concrete there, the action state is symbolic)
  double timeout = 2.5;
#endif
  FakeAct* acts[P_N];
  std::vector<activity::ActivityImpl*> list;
  list.reserve(4);
  for (int i = 0; i < P_N; i++) {
    acts[i]      = new FakeAct();
    acts[i]->idx = i;
    intrusive_ptr_add_ref(acts[i]); // the s4u activity owns its implementation
    acts[i]->set_state(activity::State::RUNNING);
#if P_LATE
    acts[i]->model_action_ = nullptr; // not started yet when the wait is armed (unmatched communication, activity held back by a dependency)
#else
    acts[i]->model_action_ = fake_action(i);
#endif
    fake_action_state[i]   = static_cast<int>(resource::Action::State::STARTED);
    list.push_back(acts[i]);
  }
  reset_answers();
#if P_MODE == 0 || P_MODE == 1
  auto* obs               = new actor::ActivityWaitSimcall(iss, acts[0], timeout, "");
  iss->simcall_.observer_ = obs;
#if P_MODE == 1
  acts[0]->set_state(activity::State::DONE);
  acts[0]->wait_for(iss, timeout);
  CHECK(finished[0] == 1 && answered[0] == 1 && timers_set == 0 && not obs->get_result(), "waiting on an activity that already completed returns at once, without timeout");
#else
  acts[0]->wait_for(iss, timeout);
  CHECK(timers_set == 1 && timer_date == the_clock + timeout, "the deadline is exactly t seconds after the call");
  CHECK(answered[0] == 0 && finished[0] == 0, "the wait blocks");
#if P_SYMTIME
  verif_witness();
  return;
#endif
  // the deadline arrives; the action of the activity is in an arbitrary state at that date
  int st = nondet_int();
  ASSUME(st >= 0 && st <= 5);
  fake_action_state[0] = st;
  bool completed       = st == static_cast<int>(resource::Action::State::FINISHED) || st == static_cast<int>(resource::Action::State::FAILED);
#if P_LATE == 1
  acts[0]->model_action_ = fake_action(0); // the activity started after the wait was armed
#elif P_LATE == 2
  completed = false; // it never started: nothing can have completed
#endif
  timer_task();
  CHECK(iss->simcall_.timeout_cb_ == nullptr, "a fired timer is forgotten");
  if (completed) {
    CHECK(answered[0] == 0 && not obs->get_result() && acts[0]->simcalls_.size() == 1, "a completion at the deadline counts as completed: no timeout is raised");
  } else {
    CHECK(answered[0] == 1 && obs->get_result(), "an activity still running at the deadline raises the timeout, once");
    CHECK(acts[0]->simcalls_.empty() && iss->waiting_synchros_.empty(), "the actor no longer waits on the activity");
  }
#endif
#else
  auto* obs               = new actor::ActivityWaitanySimcall(iss, list, timeout, "");
  iss->simcall_.observer_ = obs;
#if P_MODE == 3
  acts[P_K]->set_state(activity::State::DONE);
#endif
  activity::ActivityImpl::wait_any_for(iss, list, timeout);
#if P_MODE == 3
  CHECK(finished[P_K] == 1 && answered[0] == 1, "wait_any returns an activity that is already completed");
  for (int i = 0; i < P_N; i++)
    if (i != P_K)
      CHECK(finished[i] == 0, "only the completed activity is finished");
#else
  CHECK(timers_set == 1 && timer_date == the_clock + timeout && answered[0] == 0, "wait_any_for blocks until the deadline, exactly t seconds after the call");
  for (int i = 0; i < P_N; i++)
    CHECK(acts[i]->simcalls_.size() == 1, "the actor waits on every activity of the set");
#if P_SYMTIME
  verif_witness();
  return;
#endif
  timer_task();
  CHECK(answered[0] == 1 && obs->get_result() == -1, "at the deadline wait_any_for returns, reporting that nothing completed");
  for (int i = 0; i < P_N; i++)
    CHECK(acts[i]->simcalls_.empty() && finished[i] == 0, "no activity is finished or waited on any more after the timeout");
#endif
#endif
  verif_witness();
}
