// C17 (structural half): propagation of "modified" through the sharing graph with selective update, for every value of the visit counter.
// Topology: chain c0 -v0- c1 -v1- c2, v2 on c2 only. P_DIS: bitmask of disabled variables. P_START: constraint that is modified.
#define VERIF_COMMON_STUBS
#include "verif.h"
#include "src/kernel/lmm/maxmin.hpp"
#include "xbt/mallocator.h"
#ifndef P_VAR
#define P_VAR 0
#endif
#ifndef P_CHG
#define P_CHG 0
#endif
#ifndef P_START
#define P_START 0
#endif
struct s_xbt_mallocator {
  pvoid_f_void_t new_f;
  void_f_pvoid_t free_f;
  void_f_pvoid_t reset_f;
};
static s_xbt_mallocator the_mallocator;
extern "C" xbt_mallocator_t xbt_mallocator_new(int, pvoid_f_void_t new_f, void_f_pvoid_t free_f, void_f_pvoid_t reset_f)
{
  the_mallocator.new_f   = new_f;
  the_mallocator.free_f  = free_f;
  the_mallocator.reset_f = reset_f;
  return &the_mallocator;
}
extern "C" void* xbt_mallocator_get(xbt_mallocator_t m) { return m->new_f(); }
extern "C" void xbt_mallocator_release(xbt_mallocator_t m, void* o) { m->free_f(o); }
extern "C" void xbt_mallocator_free(xbt_mallocator_t) {}
using namespace simgrid::kernel::lmm;

extern "C" void harness_selective()
{
  MaxMin& sys = *new MaxMin(true);
  Constraint* c[3];
  Variable* v[3];
  for (int i = 0; i < 3; i++)
    c[i] = sys.constraint_new(nullptr, 10.0);
  for (int i = 0; i < 3; i++)
    v[i] = sys.variable_new(nullptr, ((P_DIS >> i) & 1) ? 0.0 : 1.0, -1.0, 2);
  sys.expand(c[0], v[0], 1.0);
  sys.expand(c[1], v[0], 1.0);
  sys.expand(c[1], v[1], 1.0);
  sys.expand(c[2], v[1], 1.0);
  sys.expand(c[2], v[2], 1.0);
  sys.remove_all_modified_cnst_set(); // end of a solve: nothing is flagged any more
  // arbitrary point of a long history: any counter value, any stamps left by earlier rounds (always older than the counter since the last wrap)
  unsigned counter = nondet_uint();
  ASSUME(counter >= 1);
  sys.visited_counter_ = counter;
  for (int i = 0; i < 3; i++) {
    unsigned st = nondet_uint();
    ASSUME(st < counter);
    v[i]->visited_ = st;
  }
#if P_MODE == 0
  sys.update_modified_cnst_set(c[P_START]);
  // reference: constraints reachable from the start through enabled variables
  bool reach[3] = {false, false, false};
  reach[P_START] = true;
  for (int round = 0; round < 3; round++) {
    if (not((P_DIS >> 0) & 1) && (reach[0] || reach[1]))
      reach[0] = reach[1] = true;
    if (not((P_DIS >> 1) & 1) && (reach[1] || reach[2]))
      reach[1] = reach[2] = true;
  }
  for (int i = 0; i < 3; i++)
    CHECK(c[i]->modified_constraint_set_hook_.is_linked() == reach[i],
          "after a change, exactly the resources connected to it through enabled activities are re-solved (whatever the value of the visit counter)");
#elif P_MODE == 2
  // a real modification of the system (instead of the bare flagging call): every constraint connected, BEFORE the change, to a constraint of the touched
  // variable must be flagged. P_VAR: the variable ; P_CHG: 0 suspend (penalty 0), 1 new penalty, 2 new bound, 3 free
  bool reach[3] = {false, false, false};
  if (not((P_DIS >> P_VAR) & 1)) { // an enabled variable links its constraints
    if (P_VAR == 0)
      reach[0] = reach[1] = true;
    else if (P_VAR == 1)
      reach[1] = reach[2] = true;
    else
      reach[2] = true;
    for (int round = 0; round < 3; round++) {
      if (not((P_DIS >> 0) & 1) && (reach[0] || reach[1]))
        reach[0] = reach[1] = true;
      if (not((P_DIS >> 1) & 1) && (reach[1] || reach[2]))
        reach[1] = reach[2] = true;
    }
  }
#if P_CHG == 0
  sys.update_variable_penalty(v[P_VAR], 0.0);
#elif P_CHG == 1
  sys.update_variable_penalty(v[P_VAR], 3.0);
#elif P_CHG == 2
  sys.update_variable_bound(v[P_VAR], 5.0);
#else
  sys.variable_free(v[P_VAR]);
#endif
  for (int i = 0; i < 3; i++)
    if (reach[i] && not c[i]->enabled_element_set_.empty()) // (a resource left without any enabled activity has nothing to re-solve)
      CHECK(c[i]->modified_constraint_set_hook_.is_linked(),
            "a change of an activity flags every resource that was connected to it through enabled activities (they all must be re-solved)");
#else
  sys.update_modified_cnst_set(c[P_START]);
  sys.remove_all_modified_cnst_set();
  for (int i = 0; i < 3; i++) {
    CHECK(not c[i]->modified_constraint_set_hook_.is_linked(), "after a solve nothing stays flagged");
    CHECK(v[i]->visited_ != sys.visited_counter_, "after a solve no activity looks already visited in the next round, also when the counter wraps around");
  }
#endif
  verif_witness();
}
