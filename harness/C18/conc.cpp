// C18: concurrency limits of the real lmm::System. Topology: 2 constraints, 3 variables (v0 on c0, v1 on c0+c1, v2 on c1).
// P_SETUP 0: built without limits, then symbolic limits >= current use (nobody staged) ; 1: c0 limited to 1 during the build (v1 is staged behind v0)
//         2: v2 created disabled (penalty 0)
// P_OP 0 none (the built state itself) ; 1 variable_free(v0) ; 2 disable v1 (penalty 0) ; 3 change the penalty of enabled v1 ; 4 enable v2 ; 5 variable_free(v2)
#define VERIF_COMMON_STUBS
#include "verif.h"
#include "src/kernel/lmm/maxmin.hpp"
#include "xbt/mallocator.h"
// the object pool of xbt is an optimisation: modelled as plain allocation
struct s_xbt_mallocator {
  pvoid_f_void_t new_f;
  void_f_pvoid_t free_f;
  void_f_pvoid_t reset_f;
};
static s_xbt_mallocator the_mallocator;
extern "C" xbt_mallocator_t xbt_mallocator_new(int, pvoid_f_void_t new_f, void_f_pvoid_t free_f, void_f_pvoid_t reset_f)
{
  the_mallocator.new_f   = new_f;
  the_mallocator.free_f  = free_f;
  the_mallocator.reset_f = reset_f;
  return &the_mallocator;
}
extern "C" void* xbt_mallocator_get(xbt_mallocator_t m) { return m->new_f(); }
extern "C" void xbt_mallocator_release(xbt_mallocator_t m, void* o) { m->free_f(o); }
extern "C" void xbt_mallocator_free(xbt_mallocator_t) {}
using namespace simgrid::kernel::lmm;

#if P_SETUP == 3
// second topology: A and B limited to 1; x0 on A and y on B run; w1 (on A and B) and w2 (on A only) are staged behind them, in that order.
// P_OP 1: variable_free(x0) ; 2: disable x0 (penalty 0) ; 5: variable_free(y)
extern "C" void harness_conc()
{
  MaxMin& sys = *new MaxMin(false);
  Constraint* c[2];
  int lim[2] = {1, 1};
  for (int i = 0; i < 2; i++) {
    c[i] = sys.constraint_new(nullptr, 10.0);
    c[i]->set_concurrency_limit(1);
  }
  Variable* x0 = sys.variable_new(nullptr, 1.0, -1.0, 2);
  Variable* y  = sys.variable_new(nullptr, 1.0, -1.0, 2);
  Variable* w1 = sys.variable_new(nullptr, 1.0, -1.0, 2);
  Variable* w2 = sys.variable_new(nullptr, 1.0, -1.0, 2);
  sys.expand(c[0], x0, 1.0);
  sys.expand(c[1], y, 1.0);
  sys.expand(c[0], w1, 1.0);
  sys.expand(c[1], w1, 1.0);
  sys.expand(c[0], w2, 1.0);
  CHECK(w1->staged_sharing_penalty_ > 0 && w2->staged_sharing_penalty_ > 0, "activities that find no free slot are staged");
  // symbolic limit on B (>= current use); A stays at 1 so that both waiters are really blocked by x0
  lim[1] = nondet_int();
  ASSUME(lim[1] >= 1 && lim[1] <= 4);
  c[1]->set_concurrency_limit(lim[1]);
#if P_OP == 1
  sys.variable_free(x0);
#elif P_OP == 2
  sys.update_variable_penalty(x0, 0.0);
#elif P_OP == 5
  sys.variable_free(y);
#endif
  for (int i = 0; i < 2; i++) {
    int conc = 0;
    for (Element const& e : c[i]->enabled_element_set_) {
      CHECK(e.variable->sharing_penalty_ > 0, "only enabled activities sit in the enabled set of a resource");
      conc += e.get_concurrency();
    }
    CHECK(conc <= lim[i], "a resource never has more enabled activities than its concurrency limit");
    CHECK(c[i]->concurrency_current_ == conc, "the concurrency counter equals the number of enabled activities counting towards the limit");
    for (Element const& e : c[i]->disabled_element_set_)
      CHECK(e.variable->staged_sharing_penalty_ == 0 || e.variable->get_min_concurrency_slack() == 0,
            "a staged activity uses at least one resource without a free slot (no starvation while everything has room)");
  }
  verif_witness();
}
#else
extern "C" void harness_conc()
{
  MaxMin& sys = *new MaxMin(false);
  Constraint* c[2];
  int lim[2];
  for (int i = 0; i < 2; i++) {
    c[i]   = sys.constraint_new(nullptr, 10.0);
    lim[i] = -1;
  }
#if P_SETUP == 1
  lim[0] = 1;
  c[0]->set_concurrency_limit(1);
#endif
  Variable* v[3];
  for (int i = 0; i < 3; i++)
    v[i] = sys.variable_new(nullptr, (P_SETUP == 2 && i == 2) ? 0.0 : 1.0, -1.0, 2);
  sys.expand(c[0], v[0], 1.0);
  sys.expand(c[0], v[1], 1.0);
  sys.expand(c[1], v[1], 1.0);
  sys.expand(c[1], v[2], 1.0);
#if P_SETUP == 1
  CHECK(v[1]->get_penalty() == 0 && v[1]->staged_sharing_penalty_ > 0, "a variable that finds no free slot is staged, not enabled");
#endif
  // symbolic limits, constrained only by the invariant: a limit is never below the current use (-1 = unlimited)
  for (int i = 0; i < 2; i++) {
#if P_SETUP == 1
    if (i == 0)
      continue;
#endif
    lim[i] = nondet_int();
    ASSUME(lim[i] == -1 || (lim[i] >= c[i]->concurrency_current_ && lim[i] <= 4));
    c[i]->set_concurrency_limit(lim[i]);
  }
#if P_OP == 1
  sys.variable_free(v[0]);
  v[0] = nullptr;
#elif P_OP == 2
  sys.update_variable_penalty(v[1], 0.0);
#elif P_OP == 3
  sys.update_variable_penalty(v[1], 2.0);
#elif P_OP == 4
  sys.update_variable_penalty(v[2], 1.0);
#elif P_OP == 5
  sys.variable_free(v[2]);
  v[2] = nullptr;
#endif
  // oracle: what System::check_concurrency() verifies (the real build only runs it under debug logging), plus "no staged variable while all its resources have room"
  for (int i = 0; i < 2; i++) {
    int conc = 0;
    for (Element const& e : c[i]->enabled_element_set_) {
      CHECK(e.variable->sharing_penalty_ > 0, "only enabled activities sit in the enabled set of a resource");
      conc += e.get_concurrency();
    }
    CHECK(lim[i] < 0 || conc <= lim[i], "a resource never has more enabled activities than its concurrency limit");
    CHECK(c[i]->concurrency_current_ == conc, "the concurrency counter equals the number of enabled activities counting towards the limit");
    for (Element const& e : c[i]->disabled_element_set_)
      CHECK(e.variable->staged_sharing_penalty_ == 0 || e.variable->get_min_concurrency_slack() == 0,
            "a staged activity uses at least one resource without a free slot (no starvation while everything has room)");
  }
#if P_SETUP == 1 && P_OP == 1
  CHECK(v[1]->get_penalty() > 0 || c[1]->get_concurrency_slack() == 0, "freeing the blocking activity lets the staged one start unless another resource is full");
#endif
  verif_witness();
}
#endif
