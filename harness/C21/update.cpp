// C21 (update kernel): Action::update_remains / update_max_duration on symbolic finite doubles: remaining work never increases, never becomes negative,
// is clamped to exactly 0 below the precision, and stays positive otherwise. P_MODE 0 update_remains, 1 update_max_duration
#define VERIF_COMMON_STUBS
#include "verif.h"
#include "simgrid/kernel/resource/Action.hpp"
#include "src/simgrid/math_utils.h"
using simgrid::kernel::resource::Action;
extern double sg_precision_timing;
extern double sg_precision_workamount;
static bool is_fin(double x) { return x == x && x - x == 0.0; }

extern "C" void harness_update()
{
  Action* a = static_cast<Action*>(calloc(1, sizeof(Action)));
  double pt = nondet_double(), pw = nondet_double();
  ASSUME(pt >= 1e-300 && pt <= 1.0); // precisions are small positive (normal) numbers (defaults 1e-9 and 1e-5)
#if P_MODE == 0
  { // (the product of two symbolic doubles is beyond every back end: the work-amount precision is a concrete grid value per query)
    static const double grid[] = {1.0, 0.5, 0.0009765625 /* 2^-10 */, 1e-5};
    pw = grid[P_PW];
  }
#else
  ASSUME(pw > 0.0 && pw <= 1.0);
#endif
  sg_precision_timing     = pt;
  sg_precision_workamount = pw;
  double r = nondet_double(), d = nondet_double();
  ASSUME(is_fin(r) && is_fin(d) && r >= 0.0 && d >= 0.0); // remaining work and progress (rate x elapsed time) are finite and non-negative
#if P_MODE == 0
  a->remains_ = r;
  a->update_remains(d);
  double n    = a->remains_;
  double prec = sg_precision_workamount * sg_precision_timing; // (read from the same cells and in the same order as the code: one shared multiplier in the formula)
#else
  ASSUME(r > 0.0); // an action with a maximal duration
  a->max_duration_ = r;
  a->update_max_duration(d);
  double n    = a->max_duration_;
  double prec = sg_precision_timing;
#endif
  CHECK(n <= r, "remaining work never increases");
  CHECK(n >= 0.0, "remaining work never becomes negative");
  CHECK(n == 0.0 || n >= prec, "what remains is either exactly zero or at least the precision (no sub-precision residue keeps an activity alive)");
  CHECK((n == 0.0) == (r - d < prec), "completion is reached exactly when the work left after this step is below the precision");
  if (n > 0.0)
    CHECK(n == r - d, "otherwise exactly the requested amount is subtracted");
  verif_witness();
}
