// C22 (event kernel): availability profiles through the real Profile::schedule/next, LegacyUpdateCb repetition (ProfileBuilder.cpp) and FutureEvtSet
// (binary heap), one kernel step at a time from a state built with the real functions:
// P_MODE 0: a profile of P_N points (periodic unless P_LOOP=0) whose event number P_IDX is pending at an arbitrary date T; one pop_leq(date) with an arbitrary
//           date: nothing happens before T; from T on the point P_IDX is delivered once and the next point is scheduled at T + its delta (+ loop delay when the
//           pattern wraps); a finished non-periodic profile leaves the event set.
// P_MODE 1: P_K resources sharing a periodic one-point profile, their events pending at arbitrary dates on one event set: the earliest one is delivered, re-scheduled one period later, none is lost
//           and the next date is the minimum of what is pending.
// P_MODE 2: Profile::schedule of a fresh profile: first point at its own date, event_list is the pattern repeated (pattern deltas, loop delay on each new period).
// (Several pops in one query are not possible: pop_leq's "nothing before date" early return is merged back by the symbolic executor and makes every container
//  size symbolic afterwards; the state after k pops is therefore built directly -- idx = k, the date any T -- which covers all histories leading to it.)
#define VERIF_COMMON_STUBS
#include "verif.h"
#include "src/kernel/resource/profile/ProfileBuilder.cpp"
#include "simgrid/s4u/Engine.hpp"
#include "src/kernel/resource/profile/Event.hpp"
using namespace simgrid::kernel::profile;
#ifndef P_N
#define P_N 2
#endif
#ifndef P_IDX
#define P_IDX 0
#endif
#ifndef P_LOOP
#define P_LOOP 1
#endif
#ifndef P_K
#define P_K 2
#endif
static Profile* mk_profile(int n, double* delta, double* value, double loop_delay, bool loop)
{
  auto* cb = static_cast<LegacyUpdateCb*>(calloc(1, sizeof(LegacyUpdateCb)));
  new (&cb->pattern) std::vector<StochasticDatedValue>();
  cb->pattern.reserve(4);
  for (int i = 0; i < n; i++) {
    StochasticDatedValue sv;
    sv.date_law     = Distribution::DET;
    sv.value_law    = Distribution::DET;
    sv.date_params  = {delta[i]};
    sv.value_params = {value[i]};
    cb->pattern.push_back(sv);
  }
  cb->loop       = loop;
  cb->loop_delay = loop_delay;
  auto* p        = static_cast<Profile*>(calloc(1, sizeof(Profile)));
  new (&p->event_list) std::vector<DatedValue>();
  new (&p->name) std::string();
  new (&p->cb) std::function<ProfileBuilder::UpdateCb>(std::cref(*cb));
  p->repeat_delay = cb->get_repeat_delay();
  p->get_enough_events(0); // what the Profile constructor does after registering the name
  return p;
}
static double nd_nonneg(double max)
{
  double x = nondet_double();
  ASSUME(x >= 0.0 && x <= max);
  return x;
}
// the event of profile p, number idx of its list, pending at date T (what Profile::next leaves behind after idx deliveries)
static Event* pending(FutureEvtSet* fes, Profile* p, unsigned idx, simgrid::kernel::resource::Resource* r, double T)
{
  auto* ev     = new Event();
  ev->profile  = p;
  ev->idx      = idx;
  ev->resource = r;
  ev->free_me  = false;
  p->fes_      = fes;
  for (unsigned k = 0; k <= idx; k++) // each earlier delivery made sure the following point is listed (Profile::next)
    p->get_enough_events(k);
  fes->add_event(T, ev);
  return ev;
}

extern "C" void harness_profile()
{
  new (&simgrid::s4u::Engine::on_platform_created) simgrid::xbt::signal<void()>(); // (static initialisers are not run)
  auto* fes    = new FutureEvtSet();
  double value = -1.0;
  simgrid::kernel::resource::Resource* res = nullptr;
#if P_MODE == 0 || P_MODE == 2
  double delta[P_N], val[P_N];
  for (int i = 0; i < P_N; i++) {
    delta[i] = nd_nonneg(1e12); // time since the previous point of the pattern (the builder stores differences)
    val[i]   = nd_nonneg(1e12);
  }
  double L   = nd_nonneg(1e12); // delay between the last point of a period and the first point of the next one
  Profile* p = mk_profile(P_N, delta, val, L, P_LOOP);
  auto* r0   = reinterpret_cast<simgrid::kernel::resource::Resource*>(&delta[0]);
#endif
#if P_MODE == 2
  Event* ev = p->schedule(fes, r0);
  CHECK(fes->next_date() == delta[0], "the first point of a profile is scheduled at its own date");
  CHECK(ev->idx == 0 && ev->profile == p && ev->resource == r0 && not ev->free_me, "the scheduled event designates the first point of this profile for this resource");
  for (int round = 0; round < 2; round++) {
    size_t sz = p->event_list.size();
    CHECK(sz == static_cast<size_t>(P_N) * (round + 1), "each refill appends exactly one period");
    for (size_t i = 0; i < sz; i++) {
      CHECK(p->event_list[i].value_ == val[i % P_N], "the event list repeats the values of the pattern in order");
      CHECK(p->event_list[i].date_ == ((i % P_N == 0 && i > 0) ? delta[0] + L : delta[i % P_N]),
            "the event list repeats the deltas of the pattern, plus the loop delay on the first point of each new period");
    }
    bool more = p->get_enough_events(sz);
    CHECK(more == (P_LOOP != 0), "a periodic profile always has a next event, a one-shot profile ends after its pattern");
    if (not more)
      break;
  }
#elif P_MODE == 0
  double T    = nd_nonneg(1e12);
  double date = nondet_double();
  ASSUME(date >= 0.0 && date <= 2e12);
  Event* ev = pending(fes, p, P_IDX, r0, T);
  CHECK(fes->next_date() == T, "the next change of the resource is the pending point");
  Event* got = fes->pop_leq(date, &value, &res);
  if (date < T) {
    CHECK(got == nullptr && fes->next_date() == T && ev->idx == P_IDX, "nothing is delivered before its date");
  } else {
    CHECK(got == ev && res == r0, "the pending point is delivered to its resource once its date is reached");
    CHECK(value == val[P_IDX % P_N], "each point of the pattern is applied once per period, in order");
    int nx = (P_IDX + 1) % P_N;
    if (P_LOOP || P_IDX + 1 < P_N) {
      CHECK(fes->next_date() == T + (nx == 0 ? delta[0] + L : delta[nx]),
            "the following point is scheduled exactly its delta after this one (plus the loop delay when the pattern starts over)");
      CHECK(ev->idx == P_IDX + 1 && not ev->free_me, "the event now designates the following point");
    } else {
      CHECK(fes->next_date() == -1.0 && ev->free_me, "a one-shot profile leaves the event set after its last point");
    }
    CHECK(fes->heap_.size() == ((P_LOOP || P_IDX + 1 < P_N) ? 1u : 0u), "the event is pending at most once: a point is not delivered twice");
  }
#else
  // one periodic one-point profile shared by P_K resources, each with its own event pending at its own date (which event pop_leq picks is symbolic: with one
  // profile per event the profile it advances is symbolic too and its refill is out of reach -- measured, 11 GB without a verdict)
  double d[P_K], v[P_K], Lk[P_K], T[P_K];
  Event* e[P_K];
  d[0]       = nd_nonneg(1e12);
  v[0]       = nd_nonneg(10);
  Lk[0]      = nd_nonneg(1e12);
  Profile* p = mk_profile(1, &d[0], &v[0], Lk[0], true);
  p->get_enough_events(1);
  for (int i = 0; i < P_K; i++) {
    d[i] = d[0], v[i] = v[0], Lk[i] = Lk[0];
    T[i] = nd_nonneg(1e12);
    e[i] = pending(fes, p, 0, reinterpret_cast<simgrid::kernel::resource::Resource*>(&d[i]), T[i]);
  }
  double mn = T[0];
  for (int i = 1; i < P_K; i++)
    mn = T[i] < mn ? T[i] : mn;
  CHECK(fes->next_date() == mn, "the next change is the earliest pending point of any profile");
  Event* got = fes->pop_leq(1e300, &value, &res);
  if (got == nullptr) {
    CHECK(false, "an event is delivered");
    return;
  }
  int who = -1;
  for (int i = 0; i < P_K; i++)
    if (got == e[i])
      who = i;
  CHECK(who >= 0 && T[who] == mn, "the delivered event is one with the earliest date: none is skipped");
  if (who >= 0) {
    CHECK(res == reinterpret_cast<simgrid::kernel::resource::Resource*>(&d[who]) && value == v[who], "it is delivered to its own resource with its own value");
    double mn2 = T[who] + (d[who] + Lk[who]); // re-scheduled one period later
    for (int i = 0; i < P_K; i++)
      if (i != who)
        mn2 = T[i] < mn2 ? T[i] : mn2;
    CHECK(fes->next_date() == mn2, "afterwards the next change is the earliest of the other pending points and of the re-scheduled one: none is lost");
    CHECK(fes->next_date() >= mn, "changes come out in non-decreasing date order");
  }
#endif
  verif_witness();
}
