// C22 (event kernel): availability profiles through the real Profile::schedule/next, LegacyUpdateCb repetition (ProfileBuilder.cpp) and FutureEvtSet
// (binary heap). P_MODE 0: one periodic profile of P_N points, P_POPS events are popped: dates and values are those of the pattern, period after period.
// P_MODE 1: two one-point periodic profiles on the same event set: events come out in non-decreasing date order, none is lost.
#define VERIF_COMMON_STUBS
#include "verif.h"
#include "src/kernel/resource/profile/ProfileBuilder.cpp"
#include "simgrid/s4u/Engine.hpp"
using namespace simgrid::kernel::profile;
#ifndef P_N
#define P_N 2
#endif
#ifndef P_POPS
#define P_POPS 5
#endif
static Profile* mk_profile(int n, double* delta, double* value, double loop_delay)
{
  auto* cb = static_cast<LegacyUpdateCb*>(calloc(1, sizeof(LegacyUpdateCb)));
  new (&cb->pattern) std::vector<StochasticDatedValue>();
  cb->pattern.reserve(4);
  for (int i = 0; i < n; i++) {
    StochasticDatedValue sv;
    sv.date_law     = Distribution::DET;
    sv.value_law    = Distribution::DET;
    sv.date_params  = {delta[i]};
    sv.value_params = {value[i]};
    cb->pattern.push_back(sv);
  }
  cb->loop       = true;
  cb->loop_delay = loop_delay;
  auto* p        = static_cast<Profile*>(calloc(1, sizeof(Profile)));
  new (&p->event_list) std::vector<DatedValue>();
  p->event_list.reserve(16);
  new (&p->name) std::string();
  new (&p->cb) std::function<ProfileBuilder::UpdateCb>(std::cref(*cb));
  p->repeat_delay = cb->get_repeat_delay();
  p->get_enough_events(0); // what the Profile constructor does after registering the name
  return p;
}
static double nd_nonneg(double max)
{
  double x = nondet_double();
  ASSUME(x >= 0.0 && x <= max);
  return x;
}

extern "C" void harness_profile()
{
  new (&simgrid::s4u::Engine::on_platform_created) simgrid::xbt::signal<void()>(); // (static initialisers are not run)
  auto* fes = new FutureEvtSet();
  double value = -1.0;
  simgrid::kernel::resource::Resource* res = nullptr;
#if P_MODE == 0
  double delta[P_N], val[P_N];
  for (int i = 0; i < P_N; i++) {
    delta[i] = nd_nonneg(1e12); // time since the previous point of the pattern (the builder stores differences)
    val[i]   = nd_nonneg(1e12);
  }
  double L   = nd_nonneg(1e12); // delay between the last point of a period and the first point of the next one
  Profile* p = mk_profile(P_N, delta, val, L);
  auto* r0   = reinterpret_cast<simgrid::kernel::resource::Resource*>(&delta[0]);
  p->schedule(fes, r0);
  double expected = delta[0];
  for (int k = 0; k < P_POPS; k++) {
    CHECK(fes->next_date() == expected, "the next change of the resource is dated exactly previous date + pattern delta (+ the loop delay at each new period)");
    Event* ev = fes->pop_leq(1e300, &value, &res);
    CHECK(ev != nullptr && res == r0, "the event of the resource is delivered");
    CHECK(value == val[k % P_N], "each point of the pattern is applied once per period, in order");
    int nx   = (k + 1) % P_N;
    expected = expected + (nx == 0 ? delta[0] + L : delta[nx]);
  }
#else
  double d1 = nd_nonneg(1e12), d2 = nd_nonneg(1e12), v1 = nd_nonneg(10), v2 = nd_nonneg(10), L1 = nd_nonneg(1e12), L2 = nd_nonneg(1e12);
  ASSUME(d1 + L1 > 0.0 && d2 + L2 > 0.0);
  Profile* p1 = mk_profile(1, &d1, &v1, L1);
  Profile* p2 = mk_profile(1, &d2, &v2, L2);
  auto* r1    = reinterpret_cast<simgrid::kernel::resource::Resource*>(&d1);
  auto* r2    = reinterpret_cast<simgrid::kernel::resource::Resource*>(&d2);
  p1->schedule(fes, r1);
  p2->schedule(fes, r2);
  double last = 0.0, e1 = d1, e2 = d2; // next expected date of each profile
  for (int k = 0; k < P_POPS; k++) {
    double nd = fes->next_date();
    CHECK(nd >= last, "changes come out in non-decreasing date order");
    CHECK(nd == (e1 <= e2 ? e1 : e2), "the next change is the earliest pending point of any profile: none is skipped");
    Event* ev = fes->pop_leq(1e300, &value, &res);
    CHECK(ev != nullptr && (res == r1 || res == r2), "an event is delivered to its resource");
    if (res == r1) {
      CHECK(nd == e1 && value == v1, "profile 1: its point, at its date");
      e1 = e1 + (d1 + L1);
    } else {
      CHECK(nd == e2 && value == v2, "profile 2: its point, at its date");
      e2 = e2 + (d2 + L2);
    }
    last = nd;
  }
#endif
  verif_witness();
}
