// C25 (Floyd zone): the real FloydZone::do_seal (Floyd-Warshall on cost_table_/predecessor_table_) and FloydZone::get_local_route (walk of the predecessors,
// concatenation of the one-hop routes) on a zone of P_N points whose declared one-hop routes are symbolic: for every ordered pair (a,b) a solver-chosen flag
// says whether a one-link route a->b is declared (P_SYM: routes are declared in both directions). The tables are filled as FloydZone::add_route fills them
// (route object, predecessor = source, cost = number of links); add_route itself checks names and builds s4u link lists and is not run.
// Decided: the route returned for a symbolic (src, dst) is a chain of declared one-hop routes from src to dst whose number of links is the minimum over all
// chains (computed independently); when no chain exists the zone raises its "No route" exception.
// (the loops of the harness are fully unrolled by the compiler: CBMC counts the iterations of nested goto loops together)
#define VERIF_COMMON_STUBS
#include "verif.h"
#include "simgrid/kernel/routing/FloydZone.hpp"
#include "simgrid/kernel/routing/NetPoint.hpp"
#include "src/kernel/resource/NetworkModel.hpp"
#include "src/kernel/resource/StandardLinkImpl.hpp"
using namespace simgrid::kernel::routing;
using simgrid::kernel::resource::StandardLinkImpl;
#ifndef P_N
#define P_N 3
#endif
#ifndef P_SYM
#define P_SYM 0
#endif
static char tag_cells[P_N * P_N];
static StandardLinkImpl* tag(int a, int b) { return reinterpret_cast<StandardLinkImpl*>(&tag_cells[a * P_N + b]); }
static int expect_no_route;
extern "C" void* __cxa_allocate_exception(unsigned long) // first step of every throw expression: the path ends here
{
  CHECK(expect_no_route, "the zone raises an exception only when no chain of declared routes leads from the source to the destination");
  ASSUME(false);
  return nullptr;
}

extern "C" void harness_floyd()
{
  auto* z = static_cast<FloydZone*>(calloc(1, sizeof(FloydZone)));
  new (&z->vertices_) std::vector<NetPoint*>();
  new (&z->predecessor_table_) std::vector<std::vector<long>>();
  new (&z->cost_table_) std::vector<std::vector<unsigned long>>();
  new (&z->link_table_) std::vector<std::vector<std::unique_ptr<Route>>>();
  z->hierarchy_ = NetZoneImpl::RoutingMode::base;
  // a network model without loopback link (only its loopback_ member is read)
  auto* model = calloc(1, sizeof(simgrid::kernel::resource::NetworkModel));
  *reinterpret_cast<void**>(&z->network_model_) = model;
  NetPoint* pts[P_N];
  _Pragma("clang loop unroll(full)") for (int i = 0; i < P_N; i++) {
    pts[i]                  = static_cast<NetPoint*>(calloc(1, sizeof(NetPoint)));
    pts[i]->id_             = i;
    pts[i]->component_type_ = NetPoint::Type::Host;
    pts[i]->englobing_zone_ = z;
    new (&pts[i]->name_) std::string();
    z->vertices_.push_back(pts[i]);
  }
  z->init_tables(P_N); // real
  bool e[P_N][P_N];
  _Pragma("clang loop unroll(full)") for (int a = 0; a < P_N; a++)
    _Pragma("clang loop unroll(full)") for (int b = 0; b < P_N; b++) {
      if (a == b) {
        e[a][b] = false;
        continue;
      }
      if (P_SYM && b < a) {
        e[a][b] = e[b][a];
      } else {
        e[a][b] = nondet_int() & 1;
      }
      // what add_route records for a one-link route a -> b
      auto* r = new Route();
      r->link_list_.push_back(tag(a, b));
      if (e[a][b]) {
        z->link_table_[a][b].reset(r);
        z->predecessor_table_[a][b] = a;
        z->cost_table_[a][b]        = r->link_list_.size();
      }
    }
  z->FloydZone::do_seal(); // real Floyd-Warshall

  // independent reference: length of the shortest chain (Bellman-Ford style relaxation, P_N - 1 rounds)
  unsigned dist[P_N][P_N];
  const unsigned INF = 1000;
  _Pragma("clang loop unroll(full)") for (int a = 0; a < P_N; a++)
    _Pragma("clang loop unroll(full)") for (int b = 0; b < P_N; b++)
      dist[a][b] = e[a][b] ? 1 : INF;
  _Pragma("clang loop unroll(full)") for (int round = 0; round < P_N - 2; round++)
    _Pragma("clang loop unroll(full)") for (int a = 0; a < P_N; a++)
      _Pragma("clang loop unroll(full)") for (int b = 0; b < P_N; b++)
        _Pragma("clang loop unroll(full)") for (int c = 0; c < P_N; c++)
          if (e[a][c] && dist[c][b] < INF && 1 + dist[c][b] < dist[a][b])
            dist[a][b] = 1 + dist[c][b];

  unsigned s = nondet_uint(), t = nondet_uint();
  ASSUME(s < P_N && t < P_N && s != t);
  expect_no_route = dist[s][t] >= INF;
  auto* route     = new Route();
  route->link_list_.reserve(8);
  z->FloydZone::get_local_route(pts[s], pts[t], route, nullptr);
  CHECK(dist[s][t] < INF, "a route is returned only when a chain of declared routes exists");
  const size_t len = route->link_list_.size();
  CHECK(len == dist[s][t], "the route has the minimal number of links among all chains of declared routes");
  unsigned cur = s;
  bool chain   = true;
  _Pragma("clang loop unroll(full)") for (size_t i = 0; i < P_N - 1; i++)
    if (i < len) {
      long ti = reinterpret_cast<const char*>(route->link_list_[i]) - tag_cells;
      if (ti < 0 || ti >= P_N * P_N) {
        chain = false;
      } else {
        unsigned a = static_cast<unsigned>(ti) / P_N, b = static_cast<unsigned>(ti) % P_N;
        chain      = chain && a == cur && e[a][b];
        cur        = b;
      }
    }
  CHECK(chain && cur == t, "the route is a chain of declared one-hop routes from the source to the destination");
  verif_witness();
}
