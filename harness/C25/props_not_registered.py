from vf import Query

SRC = ["src/kernel/routing/FloydZone.cpp", "src/kernel/routing/RoutedZone.cpp", "src/kernel/resource/NetworkModel.cpp"]
META = {
    "level_text": "Bounded symbolic execution of the real FloydZone::do_seal (Floyd-Warshall over cost_table_ / predecessor_table_), init_tables and get_local_route on a zone "
                  "whose set of declared one-link routes is symbolic (one solver-chosen flag per ordered pair of points) and whose source/destination are symbolic; the "
                  "returned route is compared with an independent shortest-chain computation. Floyd zones only: first part of the property.",
    "bounds": "zones of 3 and 4 points (thorough: 5), every directed or symmetric set of one-link routes, any source != destination; unwind per size",
    "outside": "DijkstraZone / DijkstraCache (xbt graph nodes and edges in maps, route cache) and therefore the equality of the three algorithms, FullZone, declared routes "
               "of more than one link, add_route itself (name checks, s4u link lists, duplicate detection), netzone routes with gateways (recursive hierarchy), loopback, "
               "latency accumulation, zones of more than 5 points",
    "stubs": ["the zone object is zero-filled and only the members the routing reads are constructed (the NetZoneImpl constructor registers the zone by name)",
              "tables filled as add_route fills them for one-link routes (route object, predecessor = source, cost = 1)", "links are opaque tags",
              "network model without loopback", "a throw expression ends the path (must only happen when no chain exists)", "xbt logging -> silent",
              "std::string = 'nostring' model"],
    "assumptions": [],
    "functions_filter": r"FloydZone|RoutedZone|add_link_latency",
}


def queries(tier):
    qs = []
    for n in (3, 4, 5):
        if tier == "quick" and n == 5:
            continue
        for sym in (0, 1):
            # CBMC counts the iterations of Floyd-Warshall's three nested loops together (n^3); the two route-building loops of get_local_route are bounded
            # separately (a chain has at most n-1 hops) so that they are not unrolled n^3 times; unwinding assertions stay on for all of them
            glr = "_ZN7simgrid6kernel7routing9FloydZone15get_local_routeEPKNS1_8NetPointES5_PNS1_5RouteEPd"
            qs.append(Query(f"floyd_n{n}_{'sym' if sym else 'dir'}", "C25/floyd.cpp", "harness_floyd", dict(P_N=n, P_SYM=sym), SRC, unwind=n * n * n + 2, cap_s=900, mem_gb=12,
                            memcap=8, ll2c_cap=8, prelude=["rbtree", "nostring"], no_pointer_overflow=True,
                            extra_cbmc=["--unwindset", f"{glr}.0:{n + 1},{glr}.1:{n + 1}"]))
    return qs
