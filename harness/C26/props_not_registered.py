from vf import Query

SRC = ["src/kernel/routing/TorusZone.cpp", "src/kernel/routing/ClusterZone.cpp", "src/kernel/resource/NetworkModel.cpp"]
META = {
    "level_text": "Bounded symbolic execution of the real TorusZone::get_local_route (with ClusterBase's link table, set_topology, set_loopback/set_limiter, "
                  "add_private_link_at) for symbolic source and destination nodes on tori whose shape is given per query; the route (a list of link tags) is checked "
                  "against the definition: neighbour hops, dimension by dimension, one way round per dimension, the shorter way round, limiter/loopback links as configured.",
    "bounds": "torus shapes (3) (4) (5) (2,2) (3,2) (2,3) (3,3) (2,2,2) [thorough: also (6) (7) (8) (4,3) (3,4) (5,2) (3,2,2)], with and without loopback and limiter; "
              "source and destination any node; unwind per shape",
    "outside": "fat-tree, dragonfly and star zones (their routes are built from per-level node objects created while sealing, with names and callbacks), cluster creation "
               "from callbacks (do_seal / fill_leaf_from_cb: hosts, links and their names), gateways of leaf netzones, latency accumulation, tori of more than 3 dimensions",
    "stubs": ["links are opaque tags (the route only stores the pointers)", "the zone object is zero-filled and only the members the routing reads are constructed "
              "(NetZoneImpl's constructor registers the zone by name in the engine)", "xbt logging -> silent", "abort() = violation", "std::string = 'nostring' model"],
    "assumptions": ["the link table holds, for node n and dimension j, the link from n to its next neighbour at node_pos_with_loopback_limiter(n)+j, as "
                    "TorusZone::create_torus_links places it"],
    "functions_filter": r"Torus|Cluster|add_link_latency",
}


def queries(tier):
    shapes = [(3,), (4,), (5,), (2, 2), (3, 2), (2, 3), (3, 3), (2, 2, 2)]
    if tier == "thorough":
        shapes += [(6,), (7,), (8,), (4, 3), (3, 4), (5, 2), (3, 2, 2)]
    qs = []
    for sh in shapes:
        for loop, lim in ((0, 0), (1, 0), (0, 1), (1, 1)):
            if tier == "quick" and (loop, lim) in ((1, 0), (0, 1)) and sh not in ((4,), (2, 2)):
                continue
            d = dict(P_D0=sh[0], P_LOOP=loop, P_LIM=lim)
            if len(sh) > 1:
                d["P_D1"] = sh[1]
            if len(sh) > 2:
                d["P_D2"] = sh[2]
            n = 1
            for x in sh:
                n *= x
            qs.append(Query("torus_" + "x".join(map(str, sh)) + f"_loop{loop}_lim{lim}", "C26/torus.cpp", "harness_torus", d, SRC, unwind=max(15, n + 2),
                            cap_s=900, mem_gb=12, memcap=64, ll2c_cap=64, prelude=["rbtree", "nostring", "hash"], no_pointer_overflow=True))
    return qs
