// C26 (torus): the real TorusZone::get_local_route on a torus whose shape is given per query (P_D0 x P_D1 x P_D2, a size of 1 = dimension absent), with loopback
// (P_LOOP) and limiter (P_LIM) links or not; source and destination are symbolic nodes. Links are opaque tags placed in the zone's private link table with the
// real add_private_link_at, at the positions TorusZone::create_torus_links uses (node_pos_with_loopback_limiter(node) + dimension: the link from a node to its
// next neighbour in that dimension). Decided: the route is a chain of neighbour hops from source to destination, dimension by dimension in increasing order, one
// direction per dimension, and the number of hops in each dimension is the shorter way round; limiter and loopback links appear exactly as configured.
#define VERIF_COMMON_STUBS
#include "verif.h"
#include "simgrid/kernel/routing/NetPoint.hpp"
#include "simgrid/kernel/routing/TorusZone.hpp"
#include "src/kernel/resource/StandardLinkImpl.hpp"
using namespace simgrid::kernel::routing;
using simgrid::kernel::resource::StandardLinkImpl;
#ifndef P_D1
#define P_D1 1
#endif
#ifndef P_D2
#define P_D2 1
#endif
#ifndef P_LOOP
#define P_LOOP 0
#endif
#ifndef P_LIM
#define P_LIM 0
#endif
#define NDIM ((P_D1 > 1 || P_D2 > 1) ? ((P_D2 > 1) ? 3 : 2) : 1)
#define NNODES (P_D0 * P_D1 * P_D2)
#define PER_NODE (NDIM + P_LOOP + P_LIM)
// tags: one cell per (position in the link table, up/down)
static char tag_cells[NNODES * PER_NODE * 2];
static StandardLinkImpl* tag(unsigned long position, int down) { return reinterpret_cast<StandardLinkImpl*>(&tag_cells[position * 2 + down]); }
static long tag_index(const StandardLinkImpl* l) { return reinterpret_cast<const char*>(l) - tag_cells; }
static const unsigned long dims[3] = {P_D0, P_D1, P_D2};

extern "C" void harness_torus()
{
  auto* z = static_cast<TorusZone*>(calloc(1, sizeof(TorusZone)));
  new (&z->dimensions_) std::vector<unsigned long>();
  new (&z->private_links_) std::unordered_map<unsigned long, std::pair<StandardLinkImpl*, StandardLinkImpl*>>();
  new (&z->gateways_) std::unordered_map<unsigned long, NetPoint*>();
  new (&z->dims_) std::vector<unsigned long>();
  z->num_links_per_node_ = 1;
  std::vector<unsigned long> d;
  for (int j = 0; j < NDIM; j++)
    d.push_back(dims[j]);
  z->set_topology(d); // real: dimensions_, total, links per node
  if (P_LOOP)
    z->set_loopback();
  if (P_LIM)
    z->set_limiter();
  CHECK(z->get_tot_elements() == NNODES, "the torus has as many nodes as the product of its dimensions");
  // the link table as do_seal() fills it: loopback at node_pos, limiter at node_pos_with_loopback, then one link per dimension
  for (unsigned long n = 0; n < NNODES; n++) {
    if (P_LOOP)
      z->add_private_link_at(z->node_pos(n), {tag(z->node_pos(n), 0), tag(z->node_pos(n), 1)});
    if (P_LIM)
      z->add_private_link_at(z->node_pos_with_loopback(n), {tag(z->node_pos_with_loopback(n), 0), tag(z->node_pos_with_loopback(n), 1)});
    for (unsigned long j = 0; j < NDIM; j++) {
      unsigned long pos = z->node_pos_with_loopback_limiter(n) + j;
      z->add_private_link_at(pos, {tag(pos, 0), tag(pos, 1)});
    }
  }
  auto* src = static_cast<NetPoint*>(calloc(1, sizeof(NetPoint)));
  auto* dst = static_cast<NetPoint*>(calloc(1, sizeof(NetPoint)));
  unsigned long s = nondet_ulong(), t = nondet_ulong();
  ASSUME(s < NNODES && t < NNODES);
  src->id_ = s, dst->id_ = t;
  src->component_type_ = dst->component_type_ = NetPoint::Type::Host;
  auto* route = new Route();
  route->link_list_.reserve(32);
  z->TorusZone::get_local_route(src, dst, route, nullptr); // (qualified: the zero-filled zone has no vtable pointer)

  const size_t len = route->link_list_.size();
  if (s == t) {
    if (P_LOOP) {
      CHECK(len == 1 && tag_index(route->link_list_[0]) == static_cast<long>(z->node_pos(s) * 2), "a node reaches itself through its loopback link only");
    } else {
      CHECK(len == (P_LIM ? 1u : 0u), "without loopback a node reaches itself through no torus link");
    }
  } else {
    // walk the route
    unsigned long cur = s;
    int last_dim = -1, last_dir = 0;
    unsigned long hops[3] = {0, 0, 0};
    size_t i = 0;
    bool ok_shape = true;
    for (int step = 0; step < 8; step++) { // (at most 2+2+2 hops with sizes <= 5, or 4 in one dimension of size <= 8)
      if (cur == t)
        break;
      if (P_LIM) {
        ok_shape = ok_shape && i < len && tag_index(route->link_list_[i]) == static_cast<long>(z->node_pos_with_loopback(cur) * 2);
        i++;
      }
      if (not(i < len)) {
        ok_shape = false;
        break;
      }
      long ti = tag_index(route->link_list_[i]);
      i++;
      unsigned long pos = static_cast<unsigned long>(ti) / 2;
      int down          = static_cast<int>(ti % 2);
      unsigned long owner = pos / PER_NODE;              // node whose "next neighbour" link this is
      unsigned long j     = pos % PER_NODE - P_LOOP - P_LIM; // its dimension
      if (ti < 0 || owner >= NNODES || pos % PER_NODE < static_cast<unsigned long>(P_LOOP + P_LIM)) {
        ok_shape = false;
        break;
      }
      unsigned long stride = j == 0 ? 1 : (j == 1 ? P_D0 : P_D0 * P_D1);
      unsigned long D      = dims[j];
      unsigned long coord  = (owner / stride) % D;
      unsigned long next_of_owner = coord == D - 1 ? owner - (D - 1) * stride : owner + stride;
      unsigned long nxt;
      int dir;
      if (not down) { // up: owner -> its next neighbour
        ok_shape = ok_shape && owner == cur;
        nxt      = next_of_owner;
        dir      = +1;
      } else { // down: next neighbour -> owner
        ok_shape = ok_shape && next_of_owner == cur;
        nxt      = owner;
        dir      = -1;
      }
      ok_shape = ok_shape && static_cast<int>(j) >= last_dim && (static_cast<int>(j) != last_dim || dir == last_dir);
      last_dim = static_cast<int>(j);
      last_dir = dir;
      hops[j]++;
      cur = nxt;
    }
    CHECK(ok_shape, "the route is a chain of links between neighbours, dimension by dimension, one way round per dimension (limiter of each sender first)");
    CHECK(cur == t, "the route ends at the destination");
    if (P_LIM)
      CHECK(i + 1 == len && tag_index(route->link_list_[len - 1]) == static_cast<long>(z->node_pos_with_loopback(t) * 2 + 1), "the limiter of the destination closes the route");
    else
      CHECK(i == len, "the route has no link beyond the destination");
    unsigned long stride = 1;
    for (int j = 0; j < NDIM; j++) {
      unsigned long D = dims[j];
      unsigned long a = (s / stride) % D, b = (t / stride) % D;
      unsigned long fwd = (b + D - a) % D;
      unsigned long shortest = fwd <= D - fwd ? fwd : D - fwd;
      CHECK(hops[j] == shortest, "in each dimension the route goes the shorter way round");
      stride *= D;
    }
  }
  verif_witness();
}
