// C28: MPI point-to-point matching on the real smpi_request.cpp: Request::match_recv / match_send on one sender and one receiver request with
// symbolic communicator ids, source, tags (wildcards, negative tags), sizes, probe flags and message counter. P_MODE 0 match_recv, 1 match_send
#define VERIF_COMMON_STUBS
#include "verif.h"
#include "private.hpp"
#include "smpi_comm.hpp"
#include "smpi_group.hpp"
#include "smpi_request.hpp"
using simgrid::smpi::Comm;
using simgrid::smpi::Group;
using simgrid::smpi::Request;
static Comm* comm_a;
static Comm* comm_b;
static int id_a, id_b;
static Group* grp;
static int member_rank_of_src; // rank of the sender's pid in the receiver's group, or MPI_UNDEFINED
static long src_pid;
static unsigned counter;     // messages already received on (src,dst,tag)
static int incremented;
static int smp;
int Comm::id() const { return this == comm_a ? id_a : id_b; }
MPI_Group Comm::group() { return grp; }
bool Comm::is_smp_comm() const { return smp != 0; }
int Group::rank(aid_t pid) const { return pid == src_pid ? member_rank_of_src : 0; }
unsigned int Comm::get_received_messages_count(int, int, int) { return counter; }
void Comm::increment_received_messages_count(int, int, int) { incremented++; }

static Request* mkreq()
{
  Request* r = static_cast<Request*>(calloc(1, sizeof(Request)));
  new (&r->message_id_) std::vector<unsigned int>();
  new (&r->nbc_requests_) std::vector<MPI_Request>();
  r->type_ = MPI_BYTE; // (byte matches every datatype: datatype mismatch reporting is not part of this check)
  return r;
}

extern "C" void harness_match()
{
  comm_a = static_cast<Comm*>(malloc(sizeof(Comm)));
  comm_b = static_cast<Comm*>(malloc(sizeof(Comm)));
  grp    = static_cast<Group*>(malloc(sizeof(Group)));
  id_a   = nondet_int();
  id_b   = nondet_int();
  ASSUME(id_a >= 0 && id_b >= 0 && id_a != id_b);
  smp     = nondet_int() & 1;
  counter = nondet_uint();
  Request* snd = mkreq();
  Request* rcv = mkreq();
  int same_comm = nondet_int() & 1;
  snd->comm_    = comm_a;
  rcv->comm_    = same_comm ? comm_a : comm_b;
  src_pid       = nondet_long();
  ASSUME(src_pid >= 1 && src_pid <= 1000);
  member_rank_of_src = nondet_int();
  ASSUME(member_rank_of_src == MPI_UNDEFINED || (member_rank_of_src >= 0 && member_rank_of_src < 100));
  snd->src_ = src_pid;
  snd->dst_ = 7;
  snd->tag_ = nondet_int();
  rcv->src_ = nondet_long();
  ASSUME(rcv->src_ == MPI_ANY_SOURCE || (rcv->src_ >= 1 && rcv->src_ <= 1000));
  rcv->tag_ = nondet_int();
  rcv->dst_ = 7;
  snd->real_size_ = nondet_ulong();
  rcv->real_size_ = nondet_ulong();
  int rprobe = nondet_int() & 1, sprobe = nondet_int() & 1;
  rcv->flags_ = MPI_REQ_RECV | (rprobe ? MPI_REQ_PROBE : 0);
  snd->flags_ = MPI_REQ_SEND | (sprobe ? MPI_REQ_PROBE : 0);
  unsigned msgid = nondet_uint();
  snd->message_id_.reserve(2);
  snd->message_id_.push_back(msgid);
  rcv->real_src_ = -5;
  rcv->real_tag_ = -5;
  size_t rsize0  = rcv->real_size_;
  // MPI's rule
  bool comm_ok = same_comm;
  bool src_ok  = (rcv->src_ == MPI_ANY_SOURCE && member_rank_of_src != MPI_UNDEFINED) || rcv->src_ == src_pid;
  bool tag_ok  = (rcv->tag_ == MPI_ANY_TAG && snd->tag_ >= 0) || rcv->tag_ == snd->tag_;
  bool basic   = comm_ok && src_ok && tag_ok;
#if P_MODE == 0
  bool in_order = smp || msgid == counter; // non-overtaking: only the next message of this (source, destination, tag) may match
  bool m        = Request::match_recv(rcv, snd, nullptr);
  CHECK(m == (basic && in_order), "a receive matches a message iff communicator, source and tag are compatible (wildcards included) and it is the next one in send order");
  if (not comm_ok)
    CHECK(not m, "messages never cross communicators");
  if (m && not smp) {
    CHECK(incremented == ((rprobe || sprobe) ? 0 : 1), "a real (non-probe) match consumes the message: the per-(source,destination,tag) counter advances once");
    CHECK((snd->message_id_.size() == 0) == (not rprobe && not sprobe), "the message id is consumed exactly when the message is");
    if (not rprobe && not sprobe)
      CHECK(rcv->real_size_ == (rsize0 < snd->real_size_ ? rsize0 : snd->real_size_), "the received count is the sent size, capped by the receive buffer");
  }
  if (not m) {
    CHECK(incremented == 0 && snd->message_id_.size() == 1, "a refused message is not consumed");
    CHECK((snd->flags_ & MPI_REQ_MATCHED) == 0 && rcv->detached_sender_ == nullptr, "a refused message is not marked as matched");
  }
#else
  bool m = Request::match_send(snd, rcv, nullptr);
  CHECK(m == basic, "a send matches a posted receive iff communicator, source and tag are compatible (wildcards included)");
  if (not comm_ok)
    CHECK(not m, "messages never cross communicators");
#endif
  if (m) {
    if (rcv->src_ == MPI_ANY_SOURCE)
      CHECK(rcv->real_src_ == src_pid, "a wildcard source is resolved to the actual sender (status.MPI_SOURCE)");
    if (rcv->tag_ == MPI_ANY_TAG)
      CHECK(rcv->real_tag_ == snd->tag_, "a wildcard tag is resolved to the actual tag (status.MPI_TAG)");
    CHECK(rcv->truncated_ == (not rprobe && rsize0 < snd->real_size_), "an oversized message is reported as truncated (not for probes)");
  }
  verif_witness();
}
