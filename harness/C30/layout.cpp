// C30: MPI layout (size, lb, ub, extent) of derived datatypes built by the real smpi_datatype.cpp constructors, all parameters symbolic.
// P_CTOR: 0 contiguous 1 vector 2 hvector 3 indexed 4 hindexed 5 struct 6 resized ; P_N: number of blocks (indexed/struct) ;
// P_DERIVED: the old type is itself derived (its lb/extent are then free) ; P_LBPOS: the old type has a positive lower bound
#define VERIF_COMMON_STUBS
#include "verif.h"
#include "private.hpp"
#include "smpi_datatype.hpp"
#include "smpi_datatype_derived.hpp"
using simgrid::smpi::Datatype;
int simgrid::smpi::F2C::add_f() { return 0; }
simgrid::smpi::F2C::F2C() {}
#ifndef P_N
#define P_N 1
#endif
#define MAXV 6
static long s_old[3], lb_old[3], ub_old[3];
static MPI_Datatype mk_old(int k)
{
  long s = nondet_int(), lb = nondet_int(), ex = nondet_int();
#if P_DERIVED
  ASSUME(s >= 1 && s <= 8 && ex >= 1 && ex <= 16);
#if P_LBPOS
  ASSUME(lb >= 1 && lb <= 8);
#else
  ASSUME(lb == 0);
#endif
  int flags = DT_FLAG_DERIVED;
#else
  ASSUME(s >= 1 && s <= 8 && ex == s && lb == 0); // predefined types: extent = size, lb = 0
  int flags = DT_FLAG_BASIC;
#endif
  s_old[k]  = s;
  lb_old[k] = lb;
  ub_old[k] = lb + ex;
  return new Datatype(static_cast<int>(s), lb, lb + ex, flags);
}
static long lmin(long a, long b) { return a < b ? a : b; }
static long lmax(long a, long b) { return a > b ? a : b; }

extern "C" void harness_layout()
{
  smpi_MPI_CHAR.size_ = 1; // (static initialisers are not run: MPI_CHAR as its initialiser defines it; used by the contiguous-struct shortcut)
  smpi_MPI_CHAR.lb_   = 0;
  smpi_MPI_CHAR.ub_   = 1;
  MPI_Datatype old = mk_old(0);
  long ex          = ub_old[0] - lb_old[0];
  MPI_Datatype nt  = nullptr;
  long size = 0, lb = 0, ub = 0;
  bool nonempty = true;
#if P_CTOR == 0
  int count = nondet_int();
  ASSUME(count >= 0 && count <= MAXV);
  CHECK(Datatype::create_contiguous(count, old, 0, &nt) == MPI_SUCCESS, "constructor succeeds");
  size     = count * s_old[0];
  nonempty = count > 0;
  lb       = lb_old[0];
  ub       = (count - 1) * ex + ub_old[0];
#elif P_CTOR == 1 || P_CTOR == 2
  int count = nondet_int(), bl = nondet_int();
  long stride = nondet_int();
  ASSUME(count >= 0 && count <= MAXV && bl >= 1 && bl <= MAXV && stride >= 0 && stride <= 64);
#if P_CTOR == 1
  CHECK(Datatype::create_vector(count, bl, static_cast<int>(stride), old, &nt) == MPI_SUCCESS, "constructor succeeds");
  long bstride = stride * ex;
#else
  CHECK(Datatype::create_hvector(count, bl, stride, old, &nt) == MPI_SUCCESS, "constructor succeeds");
  long bstride = stride;
#endif
  size     = (long)count * bl * s_old[0];
  nonempty = count > 0;
  lb       = lb_old[0];
  ub       = (count - 1) * bstride + (bl - 1) * ex + ub_old[0];
#elif P_CTOR == 3 || P_CTOR == 4
  int bls[P_N];
  int idx[P_N];
  MPI_Aint hidx[P_N];
  bool first = true;
  for (int i = 0; i < P_N; i++) {
    bls[i] = nondet_int();
    idx[i] = nondet_int();
    ASSUME(bls[i] >= 1 && bls[i] <= MAXV && idx[i] >= 0 && idx[i] <= 32);
    hidx[i]   = idx[i];
    long disp = P_CTOR == 3 ? idx[i] * ex : idx[i];
    size += bls[i] * s_old[0];
    long l = disp + lb_old[0], u = disp + (bls[i] - 1) * ex + ub_old[0];
    lb     = first ? l : lmin(lb, l);
    ub     = first ? u : lmax(ub, u);
    first  = false;
  }
#if P_CTOR == 3
  CHECK(Datatype::create_indexed(P_N, bls, idx, old, &nt) == MPI_SUCCESS, "constructor succeeds");
#else
  CHECK(Datatype::create_hindexed(P_N, bls, hidx, old, &nt) == MPI_SUCCESS, "constructor succeeds");
#endif
#elif P_CTOR == 5
  int bls[P_N];
  MPI_Aint disp[P_N];
  MPI_Datatype olds[P_N];
  bool first = true;
  for (int i = 0; i < P_N; i++) {
    olds[i] = i == 0 ? old : mk_old(i);
    bls[i]  = nondet_int();
    disp[i] = nondet_int();
    ASSUME(bls[i] >= 1 && bls[i] <= MAXV && disp[i] >= 0 && disp[i] <= 64);
    long exi = ub_old[i] - lb_old[i];
    size += bls[i] * s_old[i];
    long l = disp[i] + lb_old[i], u = disp[i] + (bls[i] - 1) * exi + ub_old[i];
    lb     = first ? l : lmin(lb, l);
    ub     = first ? u : lmax(ub, u);
    first  = false;
  }
  CHECK(Datatype::create_struct(P_N, bls, disp, olds, &nt) == MPI_SUCCESS, "constructor succeeds");
#else
  long nlb = nondet_int(), nex = nondet_int();
  ASSUME(nlb >= 0 && nlb <= 64 && nex >= 0 && nex <= 64);
  CHECK(Datatype::create_resized(old, nlb, nex, &nt) == MPI_SUCCESS, "constructor succeeds");
  size = s_old[0];
  lb   = nlb;
  ub   = nlb + nex;
#endif
  CHECK(nt != nullptr && static_cast<long>(nt->size()) == size, "size is the number of bytes of the type map");
  if (nonempty) {
    CHECK(nt->lb() == lb, "lower bound is the smallest displacement + lb of the type map (MPI)");
    CHECK(nt->ub() == ub, "upper bound is the largest displacement + ub of the type map (MPI)");
    CHECK(nt->get_extent() == ub - lb, "extent = ub - lb");
  } else
    CHECK(nt->get_extent() == 0, "an empty type has extent 0");
  verif_witness();
}
