// C30 (data movement): serialize() of a vector / hvector / indexed type whose old type is a resized one-byte type (size 1, symbolic extent):
// the packed bytes must be exactly those the MPI type map selects. P_CTOR 1 vector, 2 hvector, 3 indexed, 4 struct ; P_COUNT blocks (concrete)
#define VERIF_COMMON_STUBS
#include "verif.h"
#include "private.hpp"
#include "smpi_datatype.hpp"
#include "smpi_datatype_derived.hpp"
using simgrid::smpi::Datatype;
int simgrid::smpi::F2C::add_f() { return 0; }
simgrid::smpi::F2C::F2C() {}
#ifndef P_CNT
#define P_CNT 1 // number of consecutive elements of the type that are packed
#endif
#ifndef P_FIRST
#define P_FIRST 0 // displacement of the first block (indexed)
#endif
#define NC 48
static unsigned long ncw[NC / 8];
static unsigned char packed[8];

extern "C" void harness_serialize()
{
  for (int i = 0; i < NC / 8; i++) // 48 symbolic bytes
    ncw[i] = nondet_ulong();
  const unsigned char* nc = reinterpret_cast<const unsigned char*>(ncw);
  long e = P_E; // extent of the element type: one byte of data followed by e-1 bytes of gap (shape: it decides loop bounds and copy sizes)
  MPI_Datatype byte_t = new Datatype(1, 0, 1, DT_FLAG_BASIC);
  MPI_Datatype elem   = nullptr;
  Datatype::create_resized(byte_t, 0, e, &elem);
  MPI_Datatype t = nullptr;
  long disp[P_COUNT][2]; // byte displacement of element k of block i
  int bl[P_COUNT];
#if P_CTOR == 1 || P_CTOR == 2
  int b       = P_B;
  long stride = P_STRIDE;
#if P_CTOR == 1
  Datatype::create_vector(P_COUNT, b, static_cast<int>(stride), elem, &t);
  long bstride = stride * e;
#else
  Datatype::create_hvector(P_COUNT, b, stride, elem, &t);
  long bstride = stride;
#endif
  for (int i = 0; i < P_COUNT; i++) {
    bl[i] = b;
    for (int k = 0; k < 2; k++)
      disp[i][k] = i * bstride + k * e;
  }
#else
  int idx[P_COUNT];
  for (int i = 0; i < P_COUNT; i++) {
    bl[i]  = P_B;
    idx[i] = P_FIRST + i * P_STRIDE + (i > 0 ? 1 : 0); // increasing block displacements, the first one at P_FIRST
    for (int k = 0; k < 2; k++)
      disp[i][k] = (idx[i] + k) * e;
  }
#if P_CTOR == 4 // struct: the same blocks given by byte displacements, every block of the same old type
  MPI_Aint bdisp[P_COUNT];
  MPI_Datatype types[P_COUNT];
  for (int i = 0; i < P_COUNT; i++) {
    bdisp[i] = idx[i] * e;
    types[i] = elem;
  }
  Datatype::create_struct(P_COUNT, bl, bdisp, types, &t);
#else
  Datatype::create_indexed(P_COUNT, bl, idx, elem, &t);
#endif
#endif
  t->serialize(nc, packed, P_CNT); // P_CNT consecutive elements of the type: element j is the type map displaced by j times the extent
  const long ext = t->get_extent();
  int pos        = 0;
  for (int j = 0; j < P_CNT; j++)
    for (int i = 0; i < P_COUNT; i++)
      for (int k = 0; k < bl[i]; k++) {
        CHECK(j * ext + disp[i][k] < NC && pos < 8, "harness: shape fits the buffers");
        CHECK(packed[pos] == nc[j * ext + disp[i][k]], "packing copies exactly the bytes the type map selects, in type-map order");
        pos++;
      }
  CHECK(static_cast<int>(t->size()) * P_CNT == pos, "the packed size is the number of selected bytes");
  verif_witness();
}
