// C30 (data movement, receiving side): unserialize() of a vector / hvector / indexed type whose old type is itself a derived type with holes
// (V = vector(2 blocks of 1 byte, stride P_VS): size 2, extent P_VS + 1), with the real MPI_REPLACE operator: every byte of the packed stream lands at the
// place the MPI type map gives it, in type-map order, and nothing else is written. P_CTOR 1 vector, 2 hvector, 3 indexed, 4 struct ; P_COUNT blocks of P_B elements.
#define VERIF_COMMON_STUBS
#include "verif.h"
#include "src/smpi/mpi/smpi_op.cpp" // (replace_func is local to that file)
#include "smpi_datatype_derived.hpp"
using simgrid::smpi::Datatype;
int simgrid::smpi::F2C::add_f() { return 0; }
simgrid::smpi::F2C::F2C() {}
bool smpi_switch_data_segment(simgrid::s4u::ActorPtr, const void*) { return false; } // privatisation of globals is not involved
simgrid::s4u::Actor* simgrid::s4u::Actor::self() { return nullptr; }
void simgrid::s4u::intrusive_ptr_release(const simgrid::s4u::Actor*) {}
void simgrid::s4u::intrusive_ptr_add_ref(const simgrid::s4u::Actor*) {}
static void* fake_process = calloc(1, 4096); // an smpi process that is not replaying a trace (only that flag is read)
simgrid::smpi::ActorExt* smpi_process() { return static_cast<simgrid::smpi::ActorExt*>(fake_process); }
bool simgrid::smpi::ActorExt::replaying() const { return false; }
#ifndef P_CNT
#define P_CNT 1 // number of consecutive elements of the type that are unpacked
#endif
#ifndef P_FIRST
#define P_FIRST 0 // displacement of the first block (indexed)
#endif
#define NC 64
static unsigned char nc[NC];
static unsigned char before[NC];
static unsigned long packedw[2];

extern "C" void harness_unserialize()
{
  fake_process = calloc(1, 4096);
  for (int i = 0; i < 2; i++)
    packedw[i] = nondet_ulong(); // 16 symbolic packed bytes
  const unsigned char* packed = reinterpret_cast<const unsigned char*>(packedw);
  for (int i = 0; i < NC; i++)
    before[i] = nc[i] = static_cast<unsigned char>(0xA0 + i);
  MPI_Datatype byte_t = new Datatype(1, 0, 1, DT_FLAG_BASIC);
  MPI_Datatype V      = nullptr;
  Datatype::create_vector(2, 1, P_VS, byte_t, &V); // bytes 0 and P_VS of each element; extent P_VS + 1
  const long ve = P_VS + 1;
  MPI_Datatype t = nullptr;
  long disp[P_COUNT][P_B][2]; // byte displacement of inner byte j of element k of block i
  int bl[P_COUNT];
#if P_CTOR == 1 || P_CTOR == 2
#if P_CTOR == 1
  Datatype::create_vector(P_COUNT, P_B, P_STRIDE, V, &t);
  long bstride = static_cast<long>(P_STRIDE) * ve;
#else
  Datatype::create_hvector(P_COUNT, P_B, static_cast<long>(P_STRIDE) * ve + 1, V, &t);
  long bstride = static_cast<long>(P_STRIDE) * ve + 1;
#endif
  for (int i = 0; i < P_COUNT; i++) {
    bl[i] = P_B;
    for (int k = 0; k < P_B; k++)
      for (int j = 0; j < 2; j++)
        disp[i][k][j] = i * bstride + k * ve + j * P_VS;
  }
#else
  int idx[P_COUNT];
  for (int i = 0; i < P_COUNT; i++) {
    bl[i]  = P_B;
    idx[i] = P_FIRST + i * P_STRIDE + (i > 0 ? 1 : 0); // increasing block displacements, the first one at P_FIRST
    for (int k = 0; k < P_B; k++)
      for (int j = 0; j < 2; j++)
        disp[i][k][j] = (idx[i] + k) * ve + j * P_VS;
  }
#if P_CTOR == 4 // struct: the same blocks given by byte displacements, every block of the same old type
  MPI_Aint bdisp[P_COUNT];
  MPI_Datatype types[P_COUNT];
  for (int i = 0; i < P_COUNT; i++) {
    bdisp[i] = idx[i] * ve;
    types[i] = V;
  }
  Datatype::create_struct(P_COUNT, bl, bdisp, types, &t);
#else
  Datatype::create_indexed(P_COUNT, bl, idx, V, &t);
#endif
#endif
  MPI_Op replace = new simgrid::smpi::Op(replace_func, true, true, 0, std::string());
  t->unserialize(packed, nc, P_CNT, replace); // P_CNT consecutive elements: element j is the type map displaced by j times the extent
  const long ext = t->get_extent();
  bool written[NC];
  for (int i = 0; i < NC; i++)
    written[i] = false;
  int pos = 0;
  for (int el = 0; el < P_CNT; el++)
    for (int i = 0; i < P_COUNT; i++)
      for (int k = 0; k < P_B; k++)
        for (int j = 0; j < 2; j++) {
          const long at = el * ext + disp[i][k][j];
          CHECK(at < NC && pos < 16, "harness: shape fits the buffers");
          CHECK(nc[at] == packed[pos], "unpacking puts every byte of the packed stream where the type map says, in type-map order");
          written[at] = true;
          pos++;
        }
  CHECK(static_cast<int>(t->size()) * P_CNT == pos, "the packed size is the number of selected bytes");
  for (int i = 0; i < NC; i++)
    if (not written[i])
      CHECK(nc[i] == before[i], "bytes the type map does not select are left untouched");
  verif_witness();
}
