// C31: every predefined reduction function of the real smpi_op.cpp on vectors of symbolic length 0..3 with symbolic contents, against the
// element-wise MPI definition. Shape: P_FUNC (function), P_OPK (reference operator), P_DT (predefined datatype object), P_CT (C type), P_KIND:
// 0 integer-like, 1 floating point, 2 (value,index) pair, 3 unsupported combination (must be refused = xbt_die)
#define VERIF_COMMON_STUBS
#define VERIF_OWN_ABORT
#include "verif.h"
#include "src/smpi/mpi/smpi_op.cpp"
#define K_MAX 0
#define K_MIN 1
#define K_SUM 2
#define K_PROD 3
#define K_LAND 4
#define K_LOR 5
#define K_LXOR 6
#define K_BAND 7
#define K_BOR 8
#define K_BXOR 9
#define K_MAXLOC 10
#define K_MINLOC 11
#define K_REPLACE 12
#define K_NOOP 13
static int aborted_ok;
extern "C" void abort() noexcept
{
  CHECK(P_KIND == 3, "abort() reached (xbt_assert / xbt_die failure)");
  if (P_KIND == 3)
    verif_witness(); // refusing an unsupported (operator, datatype) pair is the specified outcome
  ASSUME(false);
  __builtin_unreachable();
}
#define N 3
#if P_KIND == 0 || P_KIND == 3
template <class T> static T nd()
{
  unsigned long v = nondet_ulong();
  return static_cast<T>(v);
}
#elif P_KIND == 1
template <class T> static T nd()
{
  double d = nondet_double();
  return static_cast<T>(d);
}
#endif

extern "C" void harness_op()
{
#ifdef P_LEN
  int len = P_LEN; // (products / floating-point sums: the count is part of the shape so that both sides are the same expression)
#else
  int len = nondet_int();
  ASSUME(len >= 0 && len <= N);
#endif
  MPI_Datatype dt          = &P_DT;
  dt->duplicated_datatype_ = MPI_DATATYPE_NULL; // a predefined datatype is nobody's duplicate (static initialisers are not run: set what they would set)
#if P_KIND == 2
  P_CT a[N], b[N], b0[N];
  for (int i = 0; i < N; i++) {
    a[i].value = static_cast<decltype(a[i].value)>(nondet_int());
    a[i].index = static_cast<decltype(a[i].index)>(nondet_int());
    b[i].value = static_cast<decltype(a[i].value)>(nondet_int());
    b[i].index = static_cast<decltype(a[i].index)>(nondet_int());
    b0[i]      = b[i];
  }
  P_FUNC(a, b, &len, &dt);
  for (int i = 0; i < N; i++) {
    if (i >= len) {
      CHECK(b[i].value == b0[i].value && b[i].index == b0[i].index, "elements beyond the count are untouched");
      continue;
    }
#if P_OPK == K_MAXLOC
    bool take_a = a[i].value > b0[i].value || (a[i].value == b0[i].value && a[i].index < b0[i].index);
#else
    bool take_a = a[i].value < b0[i].value || (a[i].value == b0[i].value && a[i].index < b0[i].index);
#endif
    CHECK(b[i].value == (take_a ? a[i].value : b0[i].value), "MINLOC/MAXLOC keeps the extremal value");
    CHECK(b[i].index == (take_a ? a[i].index : b0[i].index), "MINLOC/MAXLOC keeps its index, the lowest index on ties");
  }
#else
  P_CT a[N], b[N], b0[N];
  for (int i = 0; i < N; i++) {
    a[i]  = nd<P_CT>();
    b[i]  = nd<P_CT>();
    b0[i] = b[i];
  }
  // expected values are computed from the same memory cells the function will read (identical expressions on both sides of the comparison)
  P_CT exp[N];
  for (int i = 0; i < N; i++) {
    P_CT e = b[i];
    if (i < len) {
#if P_OPK == K_MAX
      e = a[i] < b[i] ? b[i] : a[i];
#elif P_OPK == K_MIN
      e = a[i] < b[i] ? a[i] : b[i];
#elif P_OPK == K_SUM
      e = b[i];
      e += a[i];
#elif P_OPK == K_PROD
      e = b[i];
      e *= a[i];
#elif P_OPK == K_LAND
      e = static_cast<P_CT>(a[i] && b[i]);
#elif P_OPK == K_LOR
      e = static_cast<P_CT>(a[i] || b[i]);
#elif P_OPK == K_LXOR
      e = static_cast<P_CT>(bool(a[i]) != bool(b[i]));
#elif P_OPK == K_BAND && P_KIND == 0
      e = b[i] & a[i];
#elif P_OPK == K_BOR && P_KIND == 0
      e = b[i] | a[i];
#elif P_OPK == K_BXOR && P_KIND == 0
      e = b[i] ^ a[i];
#elif P_OPK == K_REPLACE
      e = a[i];
#endif
    }
    exp[i] = e;
  }
  P_FUNC(a, b, &len, &dt);
#if P_KIND == 3
  CHECK(len == 0, "an unsupported (operator, datatype) pair must be refused");
#endif
  for (int i = 0; i < N; i++) {
    P_CT e = exp[i];
#if P_KIND == 1
    CHECK((b[i] == e) || (b[i] != b[i] && e != e), "the result is the element-wise value MPI defines, elements beyond the count untouched");
#else
    CHECK(b[i] == e, "the result is the element-wise value MPI defines, elements beyond the count untouched");
#endif
  }
#endif
#if P_KIND != 3
  verif_witness();
#else
  if (len == 0)
    verif_witness();
#endif
}
