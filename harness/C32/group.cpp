// C32: MPI group algebra on the real smpi_group.cpp.  Shapes: P_N1, P_N2 (group sizes), P_K (length of the rank list / number of ranges), P_OP.
// Symbolic: the pids of both groups (distinct inside a group, 0..PIDMAX-1, so every overlap pattern and relative order), rank lists, range triples.
#define VERIF_COMMON_STUBS
#include "verif.h"
#include "smpi_group.hpp"
#include "smpi_comm.hpp"
#include "simgrid/s4u/Actor.hpp"
using simgrid::smpi::Group;
simgrid::s4u::ActorPtr simgrid::s4u::Actor::by_pid(aid_t) { return nullptr; } // no actor spawned by a member: parent lookup is outside the claim
int simgrid::smpi::F2C::add_f() { return 0; }
simgrid::smpi::F2C::F2C() {}
aid_t simgrid::s4u::Actor::get_ppid() const { return -1; }
void simgrid::s4u::intrusive_ptr_release(const simgrid::s4u::Actor*) {}
#ifndef P_N2
#define P_N2 1
#endif
#ifndef P_K
#define P_K 1
#endif
#ifndef PIDMAX
#define PIDMAX 6
#endif
#define OP_INCL 0
#define OP_EXCL 1
#define OP_RANGE_INCL 2
#define OP_RANGE_EXCL 3
#define OP_UNION 4
#define OP_INTER 5
#define OP_DIFF 6
#define OP_COMPARE 7
#define OP_TRANSLATE 8

static Group* mk(int n, long* pids)
{
  Group* g = new Group(n);
  g->pid_to_rank_map_.reserve(PIDMAX);
  for (int i = 0; i < n; i++) {
    long p = nondet_int();
    ASSUME(p >= 0 && p < PIDMAX);
    for (int j = 0; j < i; j++)
      ASSUME(pids[j] != p);
    pids[i] = p;
    g->set_mapping(p, i);
  }
  return g;
}
static bool member(const long* p, int n, long x)
{
  bool r = false;
  for (int j = 0; j < n; j++)
    if (p[j] == x)
      r = true;
  return r;
}
// result group must be exactly the sequence ref[0..rn)
static void same(MPI_Group out, const long* ref, int rn)
{
  if (rn == 0) {
    CHECK(out == MPI_GROUP_EMPTY, "empty result is MPI_GROUP_EMPTY");
    return;
  }
  CHECK(out != MPI_GROUP_EMPTY && out->size() == rn, "result has the number of members MPI defines");
  for (int k = 0; k < rn; k++) {
    CHECK(out->actor(k) == ref[k], "result members are in the rank order MPI defines");
    CHECK(out->rank(ref[k]) == k, "rank translation of the result is the inverse of its member list");
  }
}

extern "C" void harness_group()
{
  long p1[P_N1 + 1], p2[P_N2 + 1], ref[P_N1 + P_N2 + 1];
  int rn    = 0;
  Group* g1 = mk(P_N1, p1);
  MPI_Group out = nullptr;
#if P_OP == OP_INCL || P_OP == OP_EXCL
  int ranks[P_K + 1];
  for (int i = 0; i < P_K; i++) {
    ranks[i] = nondet_int();
    ASSUME(ranks[i] >= 0 && ranks[i] < P_N1); // validity and distinctness are enforced by the PMPI layer / required by MPI
    for (int j = 0; j < i; j++)
      ASSUME(ranks[j] != ranks[i]);
  }
#if P_OP == OP_INCL
  g1->incl(P_K, ranks, &out);
  for (int i = 0; i < P_K; i++)
    ref[rn++] = p1[ranks[i]];
#else
  g1->excl(P_K, ranks, &out);
  for (int i = 0; i < P_N1; i++) {
    bool ex = false;
    for (int j = 0; j < P_K; j++)
      if (ranks[j] == i)
        ex = true;
    if (not ex)
      ref[rn++] = p1[i];
  }
#endif
  same(out, ref, rn);
#elif P_OP == OP_RANGE_INCL || P_OP == OP_RANGE_EXCL
  int ranges[P_K + 1][3];
  bool picked[P_N1 + 1];
  for (int i = 0; i < P_N1; i++)
    picked[i] = false;
  long inc[P_N1 * P_K + 1];
  int ni = 0;
  for (int i = 0; i < P_K; i++) {
    int f = nondet_int(), l = nondet_int(), s = nondet_int();
    ASSUME(f >= 0 && f < P_N1 && l >= 0 && l < P_N1 && s != 0 && s >= -8 && s <= 8); // CHECK_GROUP_RANGES of the PMPI layer
    ASSUME(not(f < l && s < 0) && not(f > l && s > 0));
    ranges[i][0] = f;
    ranges[i][1] = l;
    ranges[i][2] = s;
    // MPI: first, first+stride, ..., first + floor((last-first)/stride)*stride
    int cnt = (l - f) / s;
    for (int k = 0; k <= cnt && k < P_N1; k++) {
      int r = f + k * s;
      ASSUME(not picked[r]); // MPI requires the ranks of all ranges to be distinct
      picked[r] = true;
      inc[ni++] = p1[r];
    }
  }
#if P_OP == OP_RANGE_INCL
  g1->range_incl(P_K, ranges, &out);
  same(out, inc, ni);
#else
  g1->range_excl(P_K, ranges, &out);
  for (int i = 0; i < P_N1; i++)
    if (not picked[i])
      ref[rn++] = p1[i];
  same(out, ref, rn);
#endif
#else
  Group* g2 = mk(P_N2, p2);
#if P_OP == OP_UNION
  g1->group_union(g2, &out);
  for (int i = 0; i < P_N1; i++)
    ref[rn++] = p1[i];
  for (int j = 0; j < P_N2; j++)
    if (not member(p1, P_N1, p2[j]))
      ref[rn++] = p2[j];
  same(out, ref, rn);
#elif P_OP == OP_INTER
  g1->intersection(g2, &out);
  for (int i = 0; i < P_N1; i++)
    if (member(p2, P_N2, p1[i]))
      ref[rn++] = p1[i];
  same(out, ref, rn);
#elif P_OP == OP_DIFF
  g1->difference(g2, &out);
  for (int i = 0; i < P_N1; i++)
    if (not member(p2, P_N2, p1[i]))
      ref[rn++] = p1[i];
  same(out, ref, rn);
#elif P_OP == OP_COMPARE
  int c = g1->compare(g2);
  bool ident = P_N1 == P_N2, similar = P_N1 == P_N2;
  for (int i = 0; i < P_N1 && i < P_N2; i++)
    if (p1[i] != p2[i])
      ident = false;
  for (int i = 0; i < P_N1; i++)
    if (not member(p2, P_N2, p1[i]))
      similar = false;
  CHECK(c == (ident ? MPI_IDENT : similar ? MPI_SIMILAR : MPI_UNEQUAL), "Group_compare: IDENT / SIMILAR / UNEQUAL as MPI defines");
#else // rank translation g1 -> g2 (what MPI_Group_translate_ranks does per rank)
  int r = nondet_int();
  ASSUME(r >= 0 && r < P_N1);
  int t   = g2->rank(g1->actor(r));
  int exp = MPI_UNDEFINED;
  for (int j = 0; j < P_N2; j++)
    if (p2[j] == p1[r])
      exp = j;
  CHECK(t == exp, "translated rank is the position of the same process in the other group, or MPI_UNDEFINED");
  CHECK(g1->actor(-1) == -1 && g1->actor(P_N1) == -1, "ranks outside the group designate nobody");
#endif
#endif
  verif_witness();
}
