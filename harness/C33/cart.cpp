// C33: Cartesian topologies on the real smpi_topo.cpp. P_ND = number of dimensions (concrete), P_MODE:
// 0 rank(coords(r)) == r and coords in range ; 1 coords(rank(c)) == c incl. wrap-around of out-of-range coordinates on periodic dims
// 2 shift (valid direction) ; 3 shift with an invalid direction is refused ; 4 Dims_create ; 5 sub (kept dimensions + colour of the split)
#define VERIF_COMMON_STUBS
#include "verif.h"
#include "private.hpp"
#include "smpi_comm.hpp"
#include "smpi_topo.hpp"
using simgrid::smpi::Comm;
using simgrid::smpi::Topo_Cart;
#ifndef P_MAXNODES
#define P_MAXNODES 64
#endif
#ifndef P_MAXDIM
#define P_MAXDIM P_MAXNODES
#endif
#ifndef P_REMAIN
#define P_REMAIN 1
#endif
static int me;            // rank of the calling process in the communicator
static int split_color;   // colour handed to Comm::split by Topo_Cart::sub
static int split_key;
static int split_calls;
static Comm* fake_comm;
int simgrid::smpi::Comm::rank() const { return me; }
MPI_Comm simgrid::smpi::Comm::split(int color, int key)
{
  split_color = color;
  split_key   = key;
  split_calls++;
  return fake_comm;
}

static Topo_Cart* mk(int* d, int* per, int* nn_out)
{
  int nn = 1;
  for (int i = 0; i < P_ND; i++) {
    d[i] = nondet_int();
    ASSUME(d[i] >= 1 && d[i] <= P_MAXDIM);
    per[i] = nondet_int() & 1;
    nn *= d[i];
    ASSUME(nn <= P_MAXNODES);
  }
  me = nondet_int();
  ASSUME(me >= 0 && me < nn);
  auto* t  = new Topo_Cart(fake_comm, P_ND, d, per, 0, nullptr); // the real constructor computes nnodes_, dims_, periodic_, position_
  t->comm_ = fake_comm;
  *nn_out  = nn;
  return t;
}
static int ref_rank(const int* c, const int* d) // row-major, as MPI defines
{
  int r = 0;
  for (int i = 0; i < P_ND; i++)
    r = r * d[i] + c[i];
  return r;
}
static int wrap(int x, int d)
{
  int m = x % d;
  return m < 0 ? m + d : m;
}

extern "C" void harness_cart()
{
  fake_comm = static_cast<Comm*>(malloc(sizeof(Comm)));
  int d[P_ND + 1], per[P_ND + 1], nn = 0;
#if P_MODE == 4
  int nnodes = nondet_int();
  ASSUME(nnodes >= 1 && nnodes <= P_MAXNODES);
  int given[P_ND + 1];
  for (int i = 0; i < P_ND; i++) {
    given[i] = nondet_int();
    ASSUME(given[i] >= 0 && given[i] <= P_MAXNODES);
    d[i] = given[i];
  }
  int rc = Topo_Cart::Dims_create(nnodes, P_ND, d);
  int fixed = 1, nfree = 0;
  for (int i = 0; i < P_ND; i++) {
    if (given[i] > 0)
      fixed *= given[i]; // <= 64^3: no overflow
    else
      nfree++;
  }
  bool feasible = (nnodes % fixed == 0) && (nfree > 0 || fixed == nnodes);
  for (int i = 0; i < P_ND; i++)
    if (given[i] > 0 && nnodes % given[i] != 0)
      feasible = false;
  CHECK((rc == MPI_SUCCESS) == feasible, "Dims_create succeeds iff the given entries can be completed to the number of nodes");
  if (rc == MPI_SUCCESS) {
    int prod = 1;
    for (int i = 0; i < P_ND; i++) {
      CHECK(d[i] >= 1, "Dims_create returns positive dimensions");
      if (given[i] > 0)
        CHECK(d[i] == given[i], "Dims_create respects the given entries");
      prod *= d[i];
    }
    CHECK(prod == nnodes, "product of the dimensions is the number of nodes");
    int last = P_MAXNODES + 1;
    for (int i = 0; i < P_ND; i++)
      if (given[i] == 0) {
        CHECK(d[i] <= last, "computed dimensions are in non-increasing order");
        last = d[i];
      }
  }
#else
  Topo_Cart* t = mk(d, per, &nn);
  int c[P_ND + 1];
#if P_MODE == 0
  int r = nondet_int();
  ASSUME(r >= 0 && r < nn);
  CHECK(t->coords(r, P_ND, c) == MPI_SUCCESS, "coords succeeds");
  for (int i = 0; i < P_ND; i++)
    CHECK(c[i] >= 0 && c[i] < d[i], "coordinates are inside the grid");
  CHECK(ref_rank(c, d) == r, "coordinates are the row-major decomposition of the rank");
  int r2 = -7;
  CHECK(t->rank(c, &r2) == MPI_SUCCESS && r2 == r, "rank(coords(r)) == r");
  int pos[P_ND + 1];
  t->coords(me, P_ND, pos);
  for (int i = 0; i < P_ND; i++)
    CHECK(t->position_[i] == pos[i], "the stored position of the caller is coords(its rank)");
#elif P_MODE == 1
  int w[P_ND + 1];
  bool valid = true;
  for (int i = 0; i < P_ND; i++) {
    c[i] = nondet_int();
    ASSUME(c[i] >= -3 * P_MAXDIM && c[i] <= 3 * P_MAXDIM);
    if (c[i] < 0 || c[i] >= d[i]) {
      if (not per[i])
        valid = false;
    }
    w[i] = wrap(c[i], d[i]);
  }
  int r  = -7;
  int rc = t->rank(c, &r);
  if (valid) {
    CHECK(rc == MPI_SUCCESS && r == ref_rank(w, d), "rank wraps out-of-range coordinates around periodic dimensions");
    int back[P_ND + 1];
    t->coords(r, P_ND, back);
    for (int i = 0; i < P_ND; i++)
      CHECK(back[i] == w[i], "coords(rank(c)) == c (modulo the periodic wrap)");
  } else
    CHECK(rc != MPI_SUCCESS, "a coordinate outside a non-periodic dimension is an error");
#elif P_MODE == 2
  int dir = nondet_int(), disp = nondet_int();
  ASSUME(dir >= 0 && dir < P_ND && disp >= -2 * P_MAXDIM && disp <= 2 * P_MAXDIM);
  int src = -7, dst = -7;
  CHECK(t->shift(dir, disp, &src, &dst) == MPI_SUCCESS, "shift along a valid direction succeeds");
  t->coords(me, P_ND, c);
  int exp[2];
  for (int s = 0; s < 2; s++) { // s = 0: destination (+disp), 1: source (-disp)
    int x = c[dir] + (s == 0 ? disp : -disp);
    if (x < 0 || x >= d[dir]) {
      if (per[dir])
        x = wrap(x, d[dir]);
      else
        x = -1;
    }
    if (x < 0)
      exp[s] = MPI_PROC_NULL;
    else {
      int cc[P_ND + 1];
      for (int i = 0; i < P_ND; i++)
        cc[i] = i == dir ? x : c[i];
      exp[s] = ref_rank(cc, d);
    }
  }
  CHECK(dst == exp[0], "shift destination: the neighbour at +disp, wrapped if periodic, MPI_PROC_NULL off a non-periodic edge");
  CHECK(src == exp[1], "shift source: the neighbour at -disp, wrapped if periodic, MPI_PROC_NULL off a non-periodic edge");
#elif P_MODE == 3
  int dir = nondet_int(), disp = nondet_int();
  ASSUME(dir >= P_ND && dir <= P_ND + 2 && disp >= -4 && disp <= 4);
  int src = -7, dst = -7;
  CHECK(t->shift(dir, disp, &src, &dst) != MPI_SUCCESS, "shift along a direction that does not exist is refused");
#elif P_MODE == 5
  // two processes of the same grid: same sub-grid communicator iff they agree on every dropped coordinate
  int remain[P_ND + 1];
  for (int i = 0; i < P_ND; i++)
    remain[i] = (P_REMAIN >> i) & 1; // which dimensions are kept is part of the shape (it decides container sizes)
  int kept = 0;
  for (int i = 0; i < P_ND; i++)
    kept += remain[i] ? 1 : 0;
  ASSUME(kept > 0); // (dropping every dimension builds a COMM_SELF-like communicator through the engine: outside)
  int me1 = me, c1[P_ND + 1];
  t->coords(me1, P_ND, c1);
  MPI_Comm nc = nullptr;
  split_calls = 0;
  Topo_Cart* s1 = t->sub(remain, &nc);
  int color1 = split_color, key1 = split_key;
  CHECK(split_calls == 1 && key1 == me1, "sub splits the communicator once, ordering by old rank");
  CHECK(s1 != nullptr && s1->ndims_ == kept, "sub keeps exactly the selected dimensions");
  int j = 0, nsub = 1;
  for (int i = 0; i < P_ND; i++)
    if (remain[i]) {
      CHECK(s1->dims_[j] == d[i] && (s1->periodic_[j] != 0) == (per[i] != 0), "kept dimensions keep their size and periodicity, in order");
      nsub *= d[i];
      j++;
    }
  CHECK(s1->nnodes_ == nsub, "sub-grid has the product of the kept dimensions as size");
  // second process
  int me2 = nondet_int();
  ASSUME(me2 >= 0 && me2 < nn);
  me = me2;
  auto* t2  = new Topo_Cart(fake_comm, P_ND, d, per, 0, nullptr);
  t2->comm_ = fake_comm;
  int c2[P_ND + 1];
  t2->coords(me2, P_ND, c2);
  t2->sub(remain, &nc);
  bool same_dropped = true;
  for (int i = 0; i < P_ND; i++)
    if (not remain[i] && c1[i] != c2[i])
      same_dropped = false;
  CHECK((color1 == split_color) == same_dropped, "two processes get the same colour iff they agree on every dropped coordinate");
#endif
#endif
  verif_witness();
}
