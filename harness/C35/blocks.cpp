// C35: private-block arithmetic of partially shared buffers (real smpi_shared.cpp).
// P_MODE 0: shift_and_frame_private_blocks on P_NB blocks ; 1: merge_private_blocks on P_NB x P_ND blocks ; 2: shift both + merge (pipeline of the copy callback)
#define VERIF_COMMON_STUBS
#include "verif.h"
#include <utility>
#include <vector>
using Blocks = std::vector<std::pair<size_t, size_t>>;
Blocks shift_and_frame_private_blocks(const Blocks& vec, size_t offset, size_t buff_size);
Blocks merge_private_blocks(const Blocks& src, const Blocks& dst);
#ifndef P_ND
#define P_ND 1
#endif
#define LIM (1UL << 62)

// arbitrary sorted, non-overlapping, non-empty blocks (what smpi_shared_malloc_partial records), below 'lim'
static Blocks mk(int n, size_t lim)
{
  Blocks v;
  v.reserve(4);
  size_t prev = 0;
  for (int i = 0; i < n; i++) {
    size_t b = nondet_ulong(), e = nondet_ulong();
    ASSUME(b >= prev && e > b && e <= lim);
    v.push_back({b, e});
    prev = e;
  }
  return v;
}
static bool inside(const Blocks& v, size_t x)
{
  bool r = false;
  for (size_t i = 0; i < v.size(); i++)
    if (v[i].first <= x && x < v[i].second)
      r = true;
  return r;
}
static int count_inside(const Blocks& v, size_t x)
{
  int r = 0;
  for (size_t i = 0; i < v.size(); i++)
    if (v[i].first <= x && x < v[i].second)
      r++;
  return r;
}
static void well_formed(const Blocks& r, size_t size)
{
  for (size_t i = 0; i < r.size(); i++) {
    CHECK(r[i].first <= r[i].second && r[i].second <= size, "output block lies inside the message");
    if (i > 0)
      CHECK(r[i - 1].second <= r[i].first, "output blocks are sorted and do not overlap");
  }
}

extern "C" void harness_blocks()
{
#if P_MODE == 0
  Blocks v      = mk(P_NB, LIM);
  size_t offset = nondet_ulong(), size = nondet_ulong();
  ASSUME(offset < LIM && size > 0 && size < LIM);
  Blocks r = shift_and_frame_private_blocks(v, offset, size);
  well_formed(r, size);
  size_t x = nondet_ulong(); // an arbitrary byte of the message
  ASSUME(x < size);
  CHECK(inside(v, x + offset) == inside(r, x), "a byte of the message is in an output block iff it lies in a private block of the allocation");
  CHECK(count_inside(r, x) <= 1, "no byte is covered twice");
#elif P_MODE == 1
  size_t size = nondet_ulong();
  ASSUME(size > 0 && size < LIM);
  Blocks s = mk(P_NB, size), d = mk(P_ND, size);
  Blocks r = merge_private_blocks(s, d);
  well_formed(r, size);
  size_t x = nondet_ulong();
  ASSUME(x < size);
  CHECK((inside(s, x) && inside(d, x)) == inside(r, x), "a byte is copied iff it is private on both sides");
  CHECK(count_inside(r, x) <= 1, "no byte is copied twice");
#else
  Blocks s = mk(P_NB, LIM), d = mk(P_ND, LIM);
  size_t so = nondet_ulong(), dof = nondet_ulong(), size = nondet_ulong();
  ASSUME(so < LIM && dof < LIM && size > 0 && size < LIM);
  Blocks s2 = shift_and_frame_private_blocks(s, so, size);
  Blocks d2 = shift_and_frame_private_blocks(d, dof, size);
  Blocks r  = merge_private_blocks(s2, d2);
  well_formed(r, size);
  size_t x = nondet_ulong();
  ASSUME(x < size);
  CHECK((inside(s, x + so) && inside(d, x + dof)) == inside(r, x), "every message byte private in both buffers is transferred, and only those");
#endif
  verif_witness();
}
