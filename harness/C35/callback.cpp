// C35 (whole copy path): the real smpi_comm_copy_buffer_callback (smpi_global.cpp) with the real smpi_is_shared / shift / merge (smpi_shared.cpp):
// two partially shared allocations registered in the real metadata map, a message of symbolic size between symbolic offsets inside them,
// symbolic private-block layouts, symbolic payload. Every byte private on both sides must arrive.
// P_NS / P_ND: private blocks of the sender's / receiver's allocation ; P_SSH / P_DSH: the buffer belongs to a partially shared allocation (else plain memory)
#define VERIF_COMMON_STUBS
#include "verif.h"
#include "src/smpi/internals/smpi_shared.cpp"
#include "src/kernel/activity/CommImpl.hpp"
#include "src/kernel/actor/ActorImpl.hpp"
void smpi_comm_copy_buffer_callback(simgrid::kernel::activity::CommImpl* comm, void* buff, size_t buff_size);
SharedMallocType smpi_cfg_shared_malloc() { return SharedMallocType::GLOBAL; }
bool smpi_switch_data_segment(simgrid::s4u::ActorPtr, const void*) { return false; } // privatisation of globals is not involved
void simgrid::s4u::intrusive_ptr_release(const simgrid::s4u::Actor*) {}
void simgrid::s4u::intrusive_ptr_add_ref(const simgrid::s4u::Actor*) {}
#ifndef ASZ
#define ASZ 16 /* size of each allocation */
#endif
#define NMAX (ASZ / 2)
static unsigned char arena[32 + ASZ]; // one arena: sender's allocation at 0, receiver's allocation at 32 (a gap in between)
using Blocks = std::vector<std::pair<size_t, size_t>>;
static Blocks mk(int n, size_t* b, size_t* e)
{
  Blocks v;
  v.reserve(4);
  size_t prev = 0;
  for (int i = 0; i < n; i++) {
    b[i] = nondet_ulong();
    e[i] = nondet_ulong();
    ASSUME(b[i] >= prev && e[i] > b[i] && e[i] <= ASZ);
    v.push_back({b[i], e[i]});
    prev = e[i];
  }
  return v;
}
static bool priv(int n, const size_t* b, const size_t* e, size_t x)
{
  bool r = false;
  for (int i = 0; i < n; i++)
    if (b[i] <= x && x < e[i])
      r = true;
  return r;
}

extern "C" void harness_callback()
{
  for (int i = 0; i < ASZ; i++) { // symbolic memory contents
    arena[i]      = nondet_uchar();
    arena[32 + i] = nondet_uchar();
  }
  new (&allocs_metadata) std::map<const void*, shared_metadata_t>(); // (static initialisers are not run: an empty allocation map)
  unsigned char* salloc = arena;
  unsigned char* ralloc = arena + 32;
  size_t sb[3], se[3], db[3], de[3];
#if P_SSH
  {
    shared_metadata_t m;
    m.size           = ASZ;
    m.allocated_size = ASZ;
    m.allocated_ptr  = salloc;
    m.private_blocks = mk(P_NS, sb, se);
    m.data           = nullptr;
    allocs_metadata.insert({salloc, m});
  }
#endif
#if P_DSH
  {
    shared_metadata_t m;
    m.size           = ASZ;
    m.allocated_size = ASZ;
    m.allocated_ptr  = ralloc;
    m.private_blocks = mk(P_ND, db, de);
    m.data           = nullptr;
    allocs_metadata.insert({ralloc, m});
  }
#endif
  size_t so = P_SO, dof = P_DO, n = nondet_ulong(); // (offsets are part of the shape: they decide the look-up path in the allocation map)
  ASSUME(n >= 1 && n <= NMAX && so <= ASZ - n && dof <= ASZ - n); // the message lies inside both allocations
  unsigned char old[ASZ];
  unsigned char src[ASZ];
  for (int i = 0; i < ASZ; i++) {
    old[i] = ralloc[i];
    src[i] = salloc[i];
  }
  auto* comm = static_cast<simgrid::kernel::activity::CommImpl*>(calloc(1, sizeof(simgrid::kernel::activity::CommImpl)));
  auto* sa   = static_cast<simgrid::kernel::actor::ActorImpl*>(calloc(1, sizeof(simgrid::kernel::actor::ActorImpl)));
  sa->refcount_ = 100;
  comm->src_actor_.reset(sa);
  comm->dst_actor_.reset(sa);
  comm->dst_buff_ = ralloc + dof;
  smpi_comm_copy_buffer_callback(comm, salloc + so, n);
  size_t x = nondet_ulong(); // an arbitrary byte of the message
  ASSUME(x < n);
  bool ps = P_SSH ? priv(P_NS, sb, se, so + x) : true;  // plain memory is private
  bool pd = P_DSH ? priv(P_ND, db, de, dof + x) : true;
  if (ps && pd)
    CHECK(ralloc[dof + x] == src[so + x], "every byte of the message that is private in both buffers is copied");
  size_t y = nondet_ulong(); // an arbitrary byte of the receiver's allocation outside the message
  ASSUME(y < ASZ && (y < dof || y >= dof + n));
  CHECK(ralloc[y] == old[y], "nothing is written outside the message");
  verif_witness();
}
