// C39 (commutation): two actors A and B each have a pending synchronisation simcall in a kernel state built with the real kernel calls. The real observers say
// whether each is enabled and encode them (serialize); the real checker side decodes them (deserialize_transition) and says whether they depend
// (Transition::dispatch_depends). If both are enabled and declared independent, the real kernel operations of the two simcalls are run in both orders on two identical
// copies of the state: neither may disable the other, and the two final kernel states must be the same.
// Object identifiers are symbolic (mutexes, condition variables, semaphores and barriers are numbered by separate counters, so ids of different kinds may collide).
// P_KA, P_KB: simcall kinds of A and B (K_* below) ; P_OA, P_OB: which of the two mutexes each one uses ; P_CA, P_CB: which of the two condition variables ; P_PRE: what a third actor C did before
// (0 nothing, 1 owns mutex 0, 2 waits on the condition variable with mutex 0, 3 owns mutex 0 and a fourth actor waits on the condition variable) ;
// P_SIG: C signals the condition variable after A and B prepared ; P_TMO: condition waits are timed ; P_CAP: semaphore capacity ; P_BAR: barrier size ;
// P_ORD: B prepares before A
#define KSYNC_OWN_MC
#define NA 8
#include "ksync.h"
#include "src/kernel/activity/BarrierImpl.hpp"
#include "src/kernel/activity/ConditionVariableImpl.hpp"
#include "src/kernel/activity/MutexImpl.hpp"
#include "src/kernel/activity/SemaphoreImpl.hpp"
#include "src/kernel/actor/SimcallObserver.hpp"
#include "src/kernel/actor/SynchroObserver.hpp"
#include "src/mc/remote/Channel.hpp"
#include "src/mc/transition/TransitionSynchro.hpp"
using namespace simgrid;
using T = mc::Transition::Type;
extern "C" int MC_is_active() { return 1; }
#define K_MUTEX_ASYNC_LOCK 0
#define K_MUTEX_TRYLOCK 1
#define K_MUTEX_UNLOCK 2
#define K_MUTEX_WAIT 3
#define K_SEM_ASYNC_LOCK 4
#define K_SEM_UNLOCK 5
#define K_SEM_WAIT 6
#define K_CONDVAR_ASYNC_LOCK 7
#define K_CONDVAR_WAIT 8
#define K_CONDVAR_SIGNAL 9
#define K_CONDVAR_BROADCAST 10
#define K_BARRIER_ASYNC_LOCK 11
#define K_BARRIER_WAIT 12
#ifndef P_OA
#define P_OA 0
#endif
#ifndef P_OB
#define P_OB 0
#endif
#ifndef P_CA
#define P_CA 0 // which of the two condition variables A uses
#endif
#ifndef P_CB
#define P_CB 0
#endif
#ifndef P_PRE
#define P_PRE 0
#endif
#ifndef P_SIG
#define P_SIG 0
#endif
#ifndef P_TMO
#define P_TMO 0
#endif
#ifndef P_CAP
#define P_CAP 1
#endif
#ifndef P_BAR
#define P_BAR 2
#endif
#ifndef P_ORD
#define P_ORD 0
#endif
// byte queue standing for the socket between the application and the checker (as in C43)
static unsigned char wire[64];
static size_t wr, rd;
void mc::Channel::pack(const void* message, size_t size)
{
  CHECK(wr + size <= sizeof wire, "harness: message longer than the byte queue");
  const unsigned char* m = static_cast<const unsigned char*>(message);
  for (size_t i = 0; i < size && i < 16; i++)
    wire[wr + i] = m[i];
  wr += size;
}
std::pair<bool, void*> mc::Channel::receive(size_t size)
{
  CHECK(rd + size <= wr, "the checker waits for bytes the application never sent");
  void* p = wire + rd;
  rd += size;
  return {true, p};
}

#define NW 4 // actors per world: A, B, C, D
struct World {
  actor::ActorImpl* act[NW];
  activity::MutexImpl* m[2];
  activity::ConditionVariableImpl* cv[2];
  activity::SemaphoreImpl* sem;
  activity::BarrierImpl* bar;
  activity::MutexAcquisitionImplPtr macq[NW];
  activity::SemAcquisitionImplPtr sacq[NW];
  activity::ConditionVariableAcquisitionImplPtr cacq[NW];
  activity::BarrierAcquisitionImplPtr bacq[NW];
  actor::SimcallObserver* obs[NW];
  int result[NW];
};
struct Ids {
  unsigned m[2], cv[2], sem, bar;
};
static void own(World& w, int x, int o) // actor x takes mutex o (must be free): lock_async + wait, as Mutex::lock does in MC mode
{
  auto acq = w.m[o]->lock_async(w.act[x]);
  ASSUME(acq->is_granted()); // (shapes where the mutex is not free are not generated)
  acq->wait_for(w.act[x], -1);
}
static const T kind2type[] = {T::MUTEX_ASYNC_LOCK,   T::MUTEX_TRYLOCK, T::MUTEX_UNLOCK,   T::MUTEX_WAIT,       T::SEM_ASYNC_LOCK,     T::SEM_UNLOCK,  T::SEM_WAIT,
                              T::CONDVAR_ASYNC_LOCK, T::CONDVAR_WAIT,  T::CONDVAR_SIGNAL, T::CONDVAR_BROADCAST, T::BARRIER_ASYNC_LOCK, T::BARRIER_WAIT};
// what actor x did before reaching its pending simcall of kind k (real kernel calls), and the real observer of that simcall
static void prepare(World& w, int x, int k, int o, int c)
{
  actor::ActorImpl* me = w.act[x];
  const T ty           = kind2type[k];
  const double tmo     = P_TMO ? 1.0 : -1.0;
  switch (k) {
    case K_MUTEX_ASYNC_LOCK:
    case K_MUTEX_TRYLOCK:
      w.obs[x] = new actor::MutexObserver(me, ty, w.m[o]);
      break;
    case K_MUTEX_UNLOCK:
      own(w, x, o);
      w.obs[x] = new actor::MutexObserver(me, ty, w.m[o]);
      break;
    case K_MUTEX_WAIT:
      w.macq[x] = w.m[o]->lock_async(me);
      w.obs[x]  = new actor::MutexAcquisitionObserver(me, ty, w.macq[x].get(), -1);
      break;
    case K_SEM_ASYNC_LOCK:
    case K_SEM_UNLOCK:
      w.obs[x] = new actor::SemaphoreObserver(me, ty, w.sem);
      break;
    case K_SEM_WAIT:
      w.sacq[x] = w.sem->acquire_async(me);
      w.obs[x]  = new actor::SemaphoreAcquisitionObserver(me, ty, w.sacq[x].get(), -1);
      break;
    case K_CONDVAR_ASYNC_LOCK:
      own(w, x, o);
      w.obs[x] = new actor::ConditionVariableObserver(me, ty, w.cv[c], w.m[o], tmo);
      break;
    case K_CONDVAR_WAIT:
      own(w, x, o);
      w.cacq[x] = w.cv[c]->acquire_async(me, w.m[o]);
      w.obs[x]  = new actor::ConditionVariableObserver(me, ty, w.cacq[x].get(), tmo);
      break;
    case K_CONDVAR_SIGNAL:
    case K_CONDVAR_BROADCAST:
      w.obs[x] = new actor::ConditionVariableObserver(me, ty, w.cv[c]);
      break;
    case K_BARRIER_ASYNC_LOCK:
      w.obs[x] = new actor::BarrierObserver(me, ty, w.bar);
      break;
    default: // K_BARRIER_WAIT
      w.bacq[x] = w.bar->acquire_async(me);
      w.obs[x]  = new actor::BarrierObserver(me, ty, w.bacq[x].get(), -1);
      break;
  }
  me->simcall_.observer_ = w.obs[x];
}
// the kernel code of the simcall of kind k (the lambdas of s4u::Mutex, s4u::Semaphore, s4u::ConditionVariable, s4u::Barrier on their MC path)
static void execute(World& w, int x, int k, int o, int c)
{
  actor::ActorImpl* me = w.act[x];
  switch (k) {
    case K_MUTEX_ASYNC_LOCK:
      w.macq[x] = w.m[o]->lock_async(me);
      break;
    case K_MUTEX_TRYLOCK:
      w.result[x] = w.m[o]->try_lock(me);
      break;
    case K_MUTEX_UNLOCK:
      w.m[o]->unlock(me);
      break;
    case K_MUTEX_WAIT:
      w.macq[x]->wait_for(me, -1);
      break;
    case K_SEM_ASYNC_LOCK:
      w.sacq[x] = w.sem->acquire_async(me);
      break;
    case K_SEM_UNLOCK:
      w.sem->release();
      break;
    case K_SEM_WAIT:
      w.sacq[x]->wait_for(me, -1);
      break;
    case K_CONDVAR_ASYNC_LOCK:
      w.cacq[x] = w.cv[c]->acquire_async(me, w.m[o]);
      break;
    case K_CONDVAR_WAIT:
      w.cacq[x]->wait_for(me, P_TMO ? 1.0 : -1.0);
      w.macq[x] = w.cacq[x]->get_mutex()->lock_async(me);
      break;
    case K_CONDVAR_SIGNAL:
      w.cv[c]->signal();
      break;
    case K_CONDVAR_BROADCAST:
      w.cv[c]->broadcast();
      break;
    case K_BARRIER_ASYNC_LOCK:
      w.bacq[x] = w.bar->acquire_async(me);
      break;
    default:
      w.bacq[x]->wait_for(me, -1);
      break;
  }
}
static void set_ids(World& w, const Ids& ids)
{
  for (int j = 0; j < 2; j++)
    const_cast<unsigned&>(w.m[j]->id_) = ids.m[j];
  for (int j = 0; j < 2; j++)
    const_cast<unsigned&>(w.cv[j]->id_) = ids.cv[j];
  const_cast<unsigned&>(w.sem->id_) = ids.sem;
  const_cast<unsigned&>(w.bar->id_) = ids.bar;
}
static void build(World& w, int base, const Ids& ids)
{
  for (int i = 0; i < NW; i++) {
    w.act[i]    = actors[base + i];
    w.result[i] = -1;
    w.obs[i]    = nullptr;
  }
  for (int j = 0; j < 2; j++)
    w.m[j] = new activity::MutexImpl(false);
  for (int j = 0; j < 2; j++)
    w.cv[j] = new activity::ConditionVariableImpl();
  w.sem = new activity::SemaphoreImpl(P_CAP);
  w.bar = new activity::BarrierImpl(P_BAR);
  set_ids(w, ids);
  // the third actor (C = 2) and the fourth (D = 3)
#if P_PRE == 1
  own(w, 2, 0);
#elif P_PRE == 2
  own(w, 2, 0);
  w.cacq[2] = w.cv[0]->acquire_async(w.act[2], w.m[0]);
#elif P_PRE == 3
  own(w, 3, 0);
  w.cacq[3] = w.cv[0]->acquire_async(w.act[3], w.m[0]);
  own(w, 2, 0);
#endif
#if P_ORD
  prepare(w, 1, P_KB, P_OB, P_CB);
  prepare(w, 0, P_KA, P_OA, P_CA);
#else
  prepare(w, 0, P_KA, P_OA, P_CA);
  prepare(w, 1, P_KB, P_OB, P_CB);
#endif
#if P_SIG
  w.cv[0]->signal();
  w.cv[1]->signal();
#endif
}
static int idx_of(const World& w, const actor::ActorImpl* a)
{
  for (int i = 0; i < NW; i++)
    if (w.act[i] == a)
      return i;
  return a == nullptr ? -1 : -2;
}
static void same_state(World& u, World& v)
{
  for (int j = 0; j < 2; j++) {
    CHECK(idx_of(u, u.m[j]->get_owner()) == idx_of(v, v.m[j]->get_owner()), "independent transitions commute: same mutex owner in both orders");
    CHECK(u.m[j]->ongoing_acquisitions_.size() == v.m[j]->ongoing_acquisitions_.size(), "independent transitions commute: same number of actors queued on the mutex");
    if (u.m[j]->ongoing_acquisitions_.size() == v.m[j]->ongoing_acquisitions_.size())
      for (size_t i = 0; i < u.m[j]->ongoing_acquisitions_.size(); i++)
        CHECK(idx_of(u, u.m[j]->ongoing_acquisitions_[i]->get_issuer()) == idx_of(v, v.m[j]->ongoing_acquisitions_[i]->get_issuer()),
              "independent transitions commute: same order of the actors queued on the mutex");
  }
  CHECK(u.sem->value_ == v.sem->value_, "independent transitions commute: same semaphore value");
  CHECK(u.sem->ongoing_acquisitions_.size() == v.sem->ongoing_acquisitions_.size(), "independent transitions commute: same number of actors queued on the semaphore");
  if (u.sem->ongoing_acquisitions_.size() == v.sem->ongoing_acquisitions_.size())
    for (size_t i = 0; i < u.sem->ongoing_acquisitions_.size(); i++)
      CHECK(idx_of(u, u.sem->ongoing_acquisitions_[i]->get_issuer()) == idx_of(v, v.sem->ongoing_acquisitions_[i]->get_issuer()),
            "independent transitions commute: same order of the actors queued on the semaphore");
  for (int j = 0; j < 2; j++) {
    CHECK(u.cv[j]->ongoing_acquisitions_.size() == v.cv[j]->ongoing_acquisitions_.size(), "independent transitions commute: same number of actors waiting on the condition variable");
    if (u.cv[j]->ongoing_acquisitions_.size() == v.cv[j]->ongoing_acquisitions_.size())
      for (size_t i = 0; i < u.cv[j]->ongoing_acquisitions_.size(); i++)
        CHECK(idx_of(u, u.cv[j]->ongoing_acquisitions_[i]->get_issuer()) == idx_of(v, v.cv[j]->ongoing_acquisitions_[i]->get_issuer()),
              "independent transitions commute: same order of the actors waiting on the condition variable");
  }
  CHECK(u.bar->ongoing_acquisitions_.size() == v.bar->ongoing_acquisitions_.size(), "independent transitions commute: same number of actors waiting on the barrier");
  for (int i = 0; i < NW; i++) {
    CHECK(u.result[i] == v.result[i], "independent transitions commute: same simcall result for the actor");
    CHECK((u.macq[i] != nullptr) == (v.macq[i] != nullptr) && (u.macq[i] == nullptr || u.macq[i]->is_granted() == v.macq[i]->is_granted()),
          "independent transitions commute: same mutex acquisition status");
    CHECK((u.sacq[i] != nullptr) == (v.sacq[i] != nullptr) && (u.sacq[i] == nullptr || u.sacq[i]->granted_ == v.sacq[i]->granted_),
          "independent transitions commute: same semaphore acquisition status");
    CHECK((u.cacq[i] != nullptr) == (v.cacq[i] != nullptr) && (u.cacq[i] == nullptr || u.cacq[i]->granted_ == v.cacq[i]->granted_),
          "independent transitions commute: same condition acquisition status");
    CHECK((u.bacq[i] != nullptr) == (v.bacq[i] != nullptr) && (u.bacq[i] == nullptr || u.bacq[i]->granted_ == v.bacq[i]->granted_),
          "independent transitions commute: same barrier acquisition status");
    CHECK(answered[i] == answered[NW + i], "independent transitions commute: the same actors were woken up");
  }
}
static mc::Transition* decode(World& w, int x)
{
  auto* chan    = static_cast<char*>(calloc(1, 1)); // the Channel object itself is never touched: pack/receive are the byte queue above
  auto& channel = *reinterpret_cast<mc::Channel*>(chan);
  wr = rd = 0;
  w.obs[x]->serialize(channel);
  return mc::deserialize_transition(mc::Aid{static_cast<unsigned>(w.act[x]->get_pid())}, 0, channel);
}

extern "C" void harness_commute()
{
  mk_actors();
  for (int i = 0; i < NW; i++) // same pids in both copies (the second copy is never shown to the checker)
    actors[NW + i]->pid_ = actors[i]->pid_;
  // The kernel only uses the identifiers of its objects to name the acquisitions (strings); the checker only sees them in the encoded simcalls: the state is
  // built and run with fixed identifiers, the symbolic ones are in place while the two pending simcalls are encoded
  Ids ids, fixed = {{0, 1}, {0, 1}, 0, 0};
  ids.m[0] = nondet_uint(), ids.m[1] = nondet_uint(), ids.cv[0] = nondet_uint(), ids.cv[1] = nondet_uint(), ids.sem = nondet_uint(), ids.bar = nondet_uint();
  ASSUME(ids.m[0] != ids.m[1] && ids.cv[0] != ids.cv[1]);
  World& u = *new World{}; // (never destroyed: releasing the acquisitions at the end is not part of the check)
  World& v = *new World{};
  build(u, 0, fixed);
  build(v, NW, fixed);
  // answered[] is indexed by pid-1: give the second copy its own slots
  for (int i = 0; i < NW; i++)
    actors[NW + i]->pid_ = NW + i + 1;
  reset_answers();
  bool enA = u.obs[0]->is_enabled(), enB = u.obs[1]->is_enabled();
  set_ids(u, ids);
  mc::Transition* tA = decode(u, 0);
  mc::Transition* tB = decode(u, 1);
  set_ids(u, fixed);
  CHECK(tA != nullptr && tB != nullptr && tA->type_ == kind2type[P_KA] && tB->type_ == kind2type[P_KB], "the checker sees the two pending simcalls");
  bool dep  = tA->dispatch_depends(tB);
  bool dep2 = tB->dispatch_depends(tA);
  CHECK(dep == dep2, "the dependency relation is symmetric");
  if (enA && enB && not dep) {
    // order A;B on the first copy
    execute(u, 0, P_KA, P_OA, P_CA);
    CHECK(u.obs[1]->is_enabled(), "an independent transition does not disable the other one (A then B)");
    execute(u, 1, P_KB, P_OB, P_CB);
    // order B;A on the second copy
    execute(v, 1, P_KB, P_OB, P_CB);
    CHECK(v.obs[0]->is_enabled(), "an independent transition does not disable the other one (B then A)");
    execute(v, 0, P_KA, P_OA, P_CA);
    same_state(u, v);
  }
  verif_witness();
}
