// C39 (symmetry): Transition::dispatch_depends(a, b) == dispatch_depends(b, a) for every pair of transition types, all fields symbolic.
// P_T1, P_T2: Transition::Type values ; P_W1, P_W2: 0 plain, 1 wrapped in a TESTANY, 2 wrapped in a WAITANY (one level)
#define VERIF_COMMON_STUBS
#define VERIF_OWN_ABORT
#include "verif.h"
#include "src/mc/transition/Transition.hpp"
#include "src/mc/transition/TransitionActor.hpp"
#include "src/mc/transition/TransitionAny.hpp"
#include "src/mc/transition/TransitionComm.hpp"
#include "src/mc/transition/TransitionRandom.hpp"
#include "src/mc/transition/TransitionSynchro.hpp"
using namespace simgrid::mc;
// dispatch_depends() panics (xbt_die) on pairs that the checker never evaluates (NOMC types): such pairs are outside the relation
extern "C" void abort() noexcept
{
  ASSUME(false);
  __builtin_unreachable();
}
#ifndef P_W1
#define P_W1 0
#endif
#ifndef P_W2
#define P_W2 0
#endif
template <class T> static T* raw() { return static_cast<T*>(calloc(1, sizeof(T))); }
static Aid nd_aid()
{
  unsigned v = nondet_uint();
  ASSUME(v < 4);
  return Aid{v};
}
static Aid nd_opt_aid() // sender/receiver of a communication may still be unknown
{
  unsigned v = nondet_uint();
  ASSUME(v < 5);
  return v == 4 ? Aid() : Aid{v};
}
static unsigned nd_id()
{
  unsigned v = nondet_uint();
  ASSUME(v < 4);
  return v;
}
static Transition* mk(int ty)
{
  using T       = Transition::Type;
  const T t     = static_cast<T>(ty);
  Transition* r = nullptr;
  switch (t) {
    case T::RANDOM: {
      auto* x = raw<RandomTransition>();
      x->min_ = nondet_int();
      x->max_ = nondet_int();
      r       = x;
      break;
    }
    case T::ACTOR_JOIN: {
      auto* x     = raw<ActorJoinTransition>();
      x->timeout_ = nondet_int() & 1;
      x->target_  = nd_aid();
      r           = x;
      break;
    }
    case T::ACTOR_SLEEP:
      r = raw<ActorSleepTransition>();
      break;
    case T::ACTOR_CREATE: {
      auto* x   = raw<ActorCreateTransition>();
      x->child_ = nd_aid();
      r         = x;
      break;
    }
    case T::ACTOR_EXIT:
      r = raw<ActorExitTransition>();
      break;
    case T::BARRIER_ASYNC_LOCK:
    case T::BARRIER_WAIT: {
      auto* x = raw<BarrierTransition>();
      x->bar_ = nd_id();
      r       = x;
      break;
    }
    case T::COMM_ASYNC_RECV: {
      auto* x  = raw<CommRecvTransition>();
      x->comm_ = nd_id();
      x->mbox_ = nd_id();
      x->tag_  = nondet_int();
      r        = x;
      break;
    }
    case T::COMM_ASYNC_SEND: {
      auto* x  = raw<CommSendTransition>();
      x->comm_ = nd_id();
      x->mbox_ = nd_id();
      x->tag_  = nondet_int();
      r        = x;
      break;
    }
    case T::COMM_IPROBE: {
      auto* x       = raw<CommIprobeTransition>();
      x->is_sender_ = nondet_int() & 1;
      x->mbox_      = nd_id();
      x->tag_       = nondet_int();
      r             = x;
      break;
    }
    case T::COMM_TEST: {
      auto* x      = raw<CommTestTransition>();
      x->comm_     = nd_id();
      x->mbox_     = nd_id();
      x->sender_   = nd_opt_aid();
      x->receiver_ = nd_opt_aid();
      r            = x;
      break;
    }
    case T::COMM_WAIT: {
      auto* x      = raw<CommWaitTransition>();
      x->timeout_  = nondet_int() & 1;
      x->comm_     = nd_id();
      x->mbox_     = nd_id();
      x->sender_   = nd_opt_aid();
      x->receiver_ = nd_opt_aid();
      r            = x;
      break;
    }
    case T::MUTEX_ASYNC_LOCK:
    case T::MUTEX_TEST:
    case T::MUTEX_TRYLOCK:
    case T::MUTEX_UNLOCK:
    case T::MUTEX_WAIT:
    case T::MUTEX_LOCK_NOMC: {
      auto* x   = raw<MutexTransition>();
      x->mutex_ = nd_id();
      x->owner_ = nd_opt_aid();
      r         = x;
      break;
    }
    case T::SEM_ASYNC_LOCK:
    case T::SEM_UNLOCK:
    case T::SEM_WAIT:
    case T::SEM_LOCK_NOMC: {
      auto* x      = raw<SemaphoreTransition>();
      x->sem_      = nd_id();
      x->granted_  = nondet_int() & 1;
      x->capacity_ = nondet_int();
      r            = x;
      break;
    }
    case T::CONDVAR_ASYNC_LOCK:
    case T::CONDVAR_BROADCAST:
    case T::CONDVAR_SIGNAL:
    case T::CONDVAR_WAIT:
    case T::CONDVAR_NOMC: {
      auto* x     = raw<CondvarTransition>();
      x->condvar_ = nd_id();
      x->mutex_   = nd_id();
      x->granted_ = nondet_int() & 1;
      x->timeout_ = nondet_int() & 1;
      r           = x;
      break;
    }
    default:
      ASSUME(false);
  }
  r->type_ = t;
  r->aid_  = nd_aid();
  return r;
}
static Transition* wrap(Transition* inner, int w)
{
  if (w == 0)
    return inner;
  Transition* r;
  if (w == 1) {
    auto* x = raw<TestAnyTransition>();
    new (&x->transitions_) std::vector<Transition*>();
    x->transitions_.push_back(inner);
    r        = x;
    r->type_ = Transition::Type::TESTANY;
  } else {
    auto* x = raw<WaitAnyTransition>();
    new (&x->transitions_) std::vector<Transition*>();
    x->transitions_.push_back(inner);
    r        = x;
    r->type_ = Transition::Type::WAITANY;
  }
  r->aid_              = inner->aid_; // the wrapper is issued by the same actor as the communication it waits for / tests
  r->times_considered_ = 0;
  return r;
}

extern "C" void harness_symmetry()
{
  Transition* a = wrap(mk(P_T1), P_W1);
  Transition* b = wrap(mk(P_T2), P_W2);
  bool ab       = a->dispatch_depends(b);
  bool ba       = b->dispatch_depends(a);
  CHECK(ab == ba, "the dependency relation is symmetric");
  if (a->aid_ == b->aid_)
    CHECK(ab, "two transitions of the same actor are always dependent");
  verif_witness();
}
