// C42: the happens-before relation kept by the real odpor::Execution::push_transition (clock vectors) against its definition: e_i happens before e_j iff i < j and a
// chain of pairwise dependent events (real Transition::dispatch_depends; events of one actor are always dependent) leads from e_i to e_j; and the racing events
// returned by the real get_racing_events_of. The execution is P_N mutex transitions whose actors (P_A0..P_A3) and kinds (P_K0..P_K3: async lock,
// trylock, unlock, wait, test) are given per query and whose mutexes (0..1) are symbolic: which pairs depend is decided by the real look-up table.
#define VERIF_COMMON_STUBS
#include "verif.h"
#include "src/mc/explo/odpor/Execution.hpp"
#include "src/mc/transition/TransitionSynchro.hpp"
using namespace simgrid::mc;
#ifndef P_N
#define P_N 3
#endif
#ifndef P_K0
#define P_K0 0
#endif
#ifndef P_K1
#define P_K1 0
#endif
#ifndef P_K2
#define P_K2 0
#endif
#ifndef P_K3
#define P_K3 0
#endif
#ifndef P_A0
#define P_A0 0
#endif
#ifndef P_A1
#define P_A1 1
#endif
#ifndef P_A2
#define P_A2 0
#endif
#ifndef P_A3
#define P_A3 1
#endif
static const unsigned aids[4] = {P_A0, P_A1, P_A2, P_A3};
static Transition* mk(int i)
{
  auto* x   = static_cast<MutexTransition*>(calloc(1, sizeof(MutexTransition)));
  static const Transition::Type kinds[5] = {Transition::Type::MUTEX_ASYNC_LOCK, Transition::Type::MUTEX_TRYLOCK, Transition::Type::MUTEX_UNLOCK,
                                            Transition::Type::MUTEX_WAIT, Transition::Type::MUTEX_TEST};
  static const int kind_of[4]            = {P_K0, P_K1, P_K2, P_K3};
  x->type_                               = kinds[kind_of[i]]; // (a symbolic kind would make the TESTANY/WAITANY unwrapping loops of dispatch_depends symbolic)
  unsigned m = nondet_uint();
  ASSUME(m < 2);
  x->mutex_    = m;
  x->owner_    = Aid();
  x->aid_      = Aid{aids[i]};
  x->refcount_ = 100; // never released
  return x;
}

extern "C" void harness_hb()
{
  Transition* t[P_N];
  for (int i = 0; i < P_N; i++)
    t[i] = mk(i);
  auto* E = new odpor::Execution();
  for (int i = 0; i < P_N; i++)
    E->push_transition(TransitionPtr(t[i]), false);
  // the definition: transitive closure, along increasing positions, of "same actor or dependent"
  bool hb[P_N][P_N];
  for (int j = 0; j < P_N; j++)
    for (int i = j - 1; i >= 0; i--) {
      bool r = aids[i] == aids[j] || t[i]->dispatch_depends(t[j]);
      for (int k = i + 1; k < j; k++) // (no symbolic loop exit)
        r = r || (hb[i][k] && hb[k][j]);
      hb[i][j] = r;
    }
  // (the closure above needs hb[i][k] for k < j and hb[k][j] for k > i: both already computed in this order)
  for (int i = 0; i < P_N; i++)
    for (int j = 0; j < P_N; j++) {
      bool got = E->happens_before(i, j);
      CHECK(got == (i < j && hb[i][j]), "e1 happens before e2 exactly when a chain of pairwise-dependent events leads from e1 to e2");
    }
#if P_RACES
  // racing events of the last event: predecessors of another actor that happen before it with no event in between on the chain, and that are not already
  // ordered with the previous event of its actor
  const int last = P_N - 1;
  auto races     = E->get_racing_events_of(last);
  int prev       = -1;
  for (int i = 0; i < last; i++)
    if (aids[i] == aids[last])
      prev = i;
  for (int i = 0; i < last; i++) {
    bool expected = aids[i] != aids[last] && hb[i][last];
    for (int k = i + 1; k < last; k++)
      if (hb[i][k] && hb[k][last])
        expected = false; // not maximal: another event of the chain lies in between
    if (expected && prev >= 0 && (i < prev ? hb[i][prev] : false))
      expected = false; // already ordered with the previous event of the actor
    bool found = false;
    for (auto h : races)
      if (static_cast<int>(h) == i)
        found = true;
    CHECK(found == expected, "the racing events of an event are its maximal dependent predecessors of other actors not ordered with its actor's previous event");
  }
#endif
  verif_witness();
}
