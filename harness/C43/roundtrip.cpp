// C43: what the application encodes (real Observer::serialize) is what the checker decodes (real deserialize_transition and the transition constructors),
// for every synchronisation / actor / random simcall kind, with symbolic ids, pids, flags and values. The socket transport (mc::Channel buffers, send/recv) is
// replaced by a byte queue: the checker side must consume exactly the bytes the application produced (a shortfall is what makes the real checker hang).
#define KSYNC_OWN_MC
#include "ksync.h"
#include "src/kernel/activity/BarrierImpl.hpp"
#include "src/kernel/activity/ConditionVariableImpl.hpp"
#include "src/kernel/activity/MutexImpl.hpp"
#include "src/kernel/activity/SemaphoreImpl.hpp"
#include "src/kernel/actor/SimcallObserver.hpp"
#include "src/kernel/actor/CommObserver.hpp"
#include "src/kernel/activity/MessageQueueImpl.hpp"
#include "src/mc/transition/TransitionComm.hpp"
#include "simgrid/s4u/Actor.hpp"
#include "src/kernel/actor/SynchroObserver.hpp"
#include "src/mc/remote/Channel.hpp"
#include "src/mc/transition/TransitionActor.hpp"
#include "src/mc/transition/TransitionRandom.hpp"
#include "src/mc/transition/TransitionSynchro.hpp"
using namespace simgrid;
using T = mc::Transition::Type;
extern "C" int MC_is_active() { return 1; }
void simgrid::s4u::intrusive_ptr_release(const simgrid::s4u::Actor*) {}
void simgrid::s4u::intrusive_ptr_add_ref(const simgrid::s4u::Actor*) {}
aid_t simgrid::s4u::Actor::get_pid() const { return pimpl_->get_pid(); }
static unsigned char wire[64];
static size_t wr, rd;
void mc::Channel::pack(const void* message, size_t size)
{
  CHECK(wr + size <= sizeof wire, "harness: message longer than the byte queue");
  const unsigned char* m = static_cast<const unsigned char*>(message);
  for (size_t i = 0; i < size && i < 16; i++)
    wire[wr + i] = m[i];
  wr += size;
}
std::pair<bool, void*> mc::Channel::receive(size_t size)
{
  CHECK(rd + size <= wr, "the checker waits for bytes the application never sent (it would hang)");
  void* p = wire + rd;
  rd += size;
  return {true, p};
}
// strings on the wire, as mc::Channel does it (Channel.cpp is the socket transport and is not linked): a 16-bit length, then the characters and a final 0
template <> std::string mc::Channel::unpack<std::string>(std::function<void(void)>)
{
  unsigned short len = unpack<unsigned short>();
  receive(len + 1);
  return std::string();
}
template <> void mc::Channel::pack<std::string>(std::string str)
{
  unsigned short len = 0; // (strings are empty in the string model)
  pack(&len, sizeof len);
  char zero = 0;
  pack(&zero, 1);
}
template <class X> static X* raw() { return static_cast<X*>(calloc(1, sizeof(X))); }
static long nd_pid(long max = 30)
{
  long p = nondet_long();
  ASSUME(p >= 1 && p <= max); // the checker supports actor ids below static_config::max_threads - 1 = 31 (31 is its "no actor" value)
  return p;
}
// Actor ids the checker cannot represent (31 and above) must be refused with an exception, never decoded as something else: a throw expression starts by
// allocating the exception object, which is where the path ends here.
static int expect_refusal;
extern "C" void* __cxa_allocate_exception(unsigned long)
{
  CHECK(expect_refusal, "the checker raises an exception only for actor ids it cannot represent");
  ASSUME(false);
  return nullptr;
}
static int expect_owner(const actor::ActorImpl* o) { return o ? static_cast<int>(o->get_pid()) : -1; }

extern "C" void harness_roundtrip()
{
  mk_actors();
  for (int i = 0; i < NA; i++) {
    actors[i]->pid_          = nd_pid(i == 0 ? 30 : 33); // (the issuer is an actor the checker already knows; the others may be beyond what it can represent)
    const_cast<simgrid::kernel::actor::ActorImpl*&>(actors[i]->piface_.pimpl_) = actors[i];
  }
  auto* chan    = raw<char>(); // the Channel object itself is never touched: pack/receive are the byte queue above
  auto& channel = *reinterpret_cast<mc::Channel*>(chan);
  actor::ActorImpl* iss = actors[0];
  actor::SimcallObserver* obs = nullptr;
  unsigned id1 = nondet_uint(), id2 = nondet_uint();
  int has_owner = nondet_int() & 1;
  // kernel objects with symbolic identifiers
  auto* mutex = new activity::MutexImpl(false);
  const_cast<unsigned&>(mutex->id_) = id1;
  if (has_owner)
    mutex->owner_ = actors[1];
  auto* sem = new activity::SemaphoreImpl(nondet_uint());
  const_cast<unsigned&>(sem->id_) = id1;
  auto* bar = new activity::BarrierImpl(3);
  const_cast<unsigned&>(bar->id_) = id1;
  auto* cond = new activity::ConditionVariableImpl();
  const_cast<unsigned&>(cond->id_) = id2;
  double timeout = (nondet_int() & 1) ? 3.0 : -1.0;
#if P_KIND <= 2
  const T ty = P_KIND == 0 ? T::MUTEX_ASYNC_LOCK : P_KIND == 1 ? T::MUTEX_TRYLOCK : T::MUTEX_UNLOCK;
  obs        = new actor::MutexObserver(iss, ty, mutex);
#elif P_KIND <= 4
  const T ty = P_KIND == 3 ? T::MUTEX_WAIT : T::MUTEX_TEST;
  auto macq  = activity::MutexAcquisitionImplPtr(new activity::MutexAcquisitionImpl(iss, mutex), true);
  obs        = new actor::MutexAcquisitionObserver(iss, ty, macq.get(), timeout);
#elif P_KIND <= 6
  const T ty = P_KIND == 5 ? T::SEM_ASYNC_LOCK : T::SEM_UNLOCK;
  obs        = new actor::SemaphoreObserver(iss, ty, sem);
#elif P_KIND == 7
  const T ty    = T::SEM_WAIT;
  auto sacq     = activity::SemAcquisitionImplPtr(new activity::SemAcquisitionImpl(iss, sem), true);
  sacq->granted_ = nondet_int() & 1;
  obs           = new actor::SemaphoreAcquisitionObserver(iss, ty, sacq.get(), timeout);
#elif P_KIND == 8
  const T ty = T::BARRIER_ASYNC_LOCK;
  obs        = new actor::BarrierObserver(iss, ty, bar);
#elif P_KIND == 9
  const T ty = T::BARRIER_WAIT;
  auto bacq  = activity::BarrierAcquisitionImplPtr(new activity::BarrierAcquisitionImpl(iss, bar), true);
  obs        = new actor::BarrierObserver(iss, ty, bacq.get(), timeout);
#elif P_KIND == 10
  const T ty = T::CONDVAR_ASYNC_LOCK;
  obs        = new actor::ConditionVariableObserver(iss, ty, cond, mutex, timeout);
#elif P_KIND == 11
  const T ty = T::CONDVAR_WAIT;
  auto cacq  = activity::ConditionVariableAcquisitionImplPtr(new activity::ConditionVariableAcquisitionImpl(iss, cond, mutex), true);
  cacq->granted_ = nondet_int() & 1;
  obs        = new actor::ConditionVariableObserver(iss, ty, cacq.get(), timeout);
#elif P_KIND <= 13
  const T ty = P_KIND == 12 ? T::CONDVAR_SIGNAL : T::CONDVAR_BROADCAST;
  obs        = new actor::ConditionVariableObserver(iss, ty, cond);
#elif P_KIND == 14
  const T ty = T::RANDOM;
  int rmin = nondet_int(), rmax = nondet_int();
  ASSUME(rmin <= rmax);
  obs = new actor::RandomSimcall(iss, rmin, rmax);
#elif P_KIND == 15
  const T ty = T::ACTOR_JOIN;
  obs        = new actor::ActorJoinSimcall(iss, actors[2], timeout);
#elif P_KIND == 16
  const T ty = T::ACTOR_EXIT;
  obs        = new actor::ActorExitSimcall(iss);
#elif P_KIND == 17
  const T ty = T::ACTOR_SLEEP;
  obs        = new actor::ActorSleepSimcall(iss);
#elif P_KIND == 19
  const T ty = T::COMM_ASYNC_SEND; // a put on a message queue is shown to the checker as an asynchronous send
  auto* mq   = new activity::MessageQueueImpl(std::string());
  obs        = new actor::MessIputSimcall(iss, mq, std::function<void(void*)>(), nullptr, false);
#elif P_KIND == 20
  const T ty = T::COMM_ASYNC_RECV;
  auto* mq   = new activity::MessageQueueImpl(std::string());
  obs        = new actor::MessIgetSimcall(iss, mq, nullptr, nullptr, nullptr);
#else
  const T ty    = T::ACTOR_CREATE;
  auto* cobs    = new actor::ActorCreateSimcall(iss);
  long childpid = nd_pid(33);
  expect_refusal = childpid >= 31;
  cobs->set_child(childpid);
  obs = cobs;
#endif
#if P_KIND <= 4
  expect_refusal = has_owner && actors[1]->get_pid() >= 31;
#elif P_KIND == 15
  expect_refusal = actors[2]->get_pid() >= 31;
#endif
  obs->serialize(channel);
  mc::Transition* t = mc::deserialize_transition(mc::Aid{static_cast<unsigned>(iss->get_pid())}, 0, channel);
  CHECK(rd == wr, "the checker consumes exactly the bytes the application encoded");
  CHECK(t != nullptr && t->type_ == ty, "the decoded transition has the type of the simcall");
  CHECK(t->aid_.c_val() == static_cast<int>(iss->get_pid()), "the decoded transition belongs to the issuing actor");
#if P_KIND <= 4
  auto* mt = static_cast<mc::MutexTransition*>(t);
  CHECK(mt->get_mutex() == id1 && mt->get_owner().c_val() == expect_owner(mutex->get_owner()), "mutex transition: same mutex and same owner");
#elif P_KIND <= 7
  auto* st = static_cast<mc::SemaphoreTransition*>(t);
  CHECK(st->get_sem() == id1, "semaphore transition: same semaphore");
#if P_KIND == 7
  CHECK((st->granted_ != 0) == (sacq->granted_ != 0) && st->get_capacity() == static_cast<int>(sem->get_capacity()), "semaphore wait: same granted flag and capacity");
#else
  CHECK(st->get_capacity() == static_cast<int>(sem->get_capacity()), "semaphore lock/unlock: same number of free tokens");
#endif
#elif P_KIND <= 9
  CHECK(static_cast<mc::BarrierTransition*>(t)->bar_ == id1, "barrier transition: same barrier");
#elif P_KIND <= 13
  auto* ct = static_cast<mc::CondvarTransition*>(t);
  CHECK(ct->get_condvar() == id2, "condition-variable transition: same condition variable");
#if P_KIND <= 11
  CHECK(ct->get_mutex() == id1, "condition-variable transition: same mutex");
#endif
#if P_KIND == 11
  CHECK(ct->is_granted() == (cacq->granted_ != 0) && (ct->timeout_ != 0) == (timeout > 0), "condition-variable wait: same granted and timeout flags");
#endif
#elif P_KIND == 14
  auto* rt = static_cast<mc::RandomTransition*>(t);
  CHECK(rt->min_ == rmin && rt->max_ == rmax, "random transition: same bounds");
#elif P_KIND == 15
  auto* jt = static_cast<mc::ActorJoinTransition*>(t);
  CHECK(jt->get_target().c_val() == static_cast<int>(actors[2]->get_pid()) && (jt->timeout_ != 0) == (timeout > 0), "join transition: same target and timeout flag");
#elif P_KIND == 18
  CHECK(static_cast<mc::ActorCreateTransition*>(t)->get_child().c_val() == static_cast<int>(childpid), "create transition: same child");
#elif P_KIND == 19
  CHECK(static_cast<mc::CommSendTransition*>(t)->get_mailbox() == mq->get_id(), "message-queue put: same queue");
#elif P_KIND == 20
  CHECK(static_cast<mc::CommRecvTransition*>(t)->get_mailbox() == mq->get_id(), "message-queue get: same queue");
#endif
  verif_witness();
}
