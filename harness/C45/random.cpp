// C45: XbtRandom::uniform_int / uniform_real on the real src/xbt/random.cpp, the Mersenne-twister output replaced by symbolic 32-bit words.
// P_MODE 0: uniform_int, all (min,max), up to 3 draws ; 1: uniform_real on a grid of bounds, numerator symbolic
#define VERIF_COMMON_STUBS
#include "verif.h"
#include <xbt/random.hpp>
using simgrid::xbt::random::XbtRandom;
static unsigned long draws[4];
static unsigned long d0, d1, d2; // (scalars: no array theory in the solver query)
static int ndraws;
static unsigned long last_word; // the word handed out last, i.e. the accepted one when the function returns
// std::mt19937::operator()() (the standard library's generator is not under test: its output is an arbitrary 32-bit word)
extern "C" unsigned long verif_mt_next(void*) __asm__("_ZNSt23mersenne_twister_engineImLm32ELm624ELm397ELm31ELm2567483615ELm11ELm4294967295ELm7ELm2636928640ELm15ELm4022730752ELm18ELm1812433253EEclEv");
extern "C" unsigned long verif_mt_next(void*)
{
  CHECK(ndraws < 3, "more than three draws (outside the bound of this check)");
  ndraws++;
  last_word = ndraws == 1 ? d0 : ndraws == 2 ? d1 : d2;
  return last_word;
}
#define M 4294967295UL
#ifndef P_CHECK
#define P_CHECK 1
#endif
#ifndef P_FULL
#define P_FULL 0
#endif
#ifndef P_HUGE
#define P_HUGE 0
#endif

extern "C" void harness_random()
{
#if P_MODE != 2
  XbtRandom* r = static_cast<XbtRandom*>(malloc(sizeof(XbtRandom))); // the engine state is never read: operator() is the symbolic source
#endif
#if P_MODE != 2
  draws[0] = nondet_ulong(); // (no loop here: the unwinding bound of the query is the one of the rejection loop)
  draws[1] = nondet_ulong();
  draws[2] = nondet_ulong();
  ASSUME(draws[0] <= M && draws[1] <= M && draws[2] <= M);
  d0 = draws[0];
  d1 = draws[1];
  d2 = draws[2];
#endif
#if P_MODE == 0 || P_MODE == 2 || P_MODE == 3
  int min = nondet_int(), max = nondet_int();
  ASSUME(min <= max);
  unsigned long range = (unsigned long)((unsigned)max - (unsigned)min) + 1; // number of admissible values, 1..2^32
#ifdef P_MAXRANGE
  ASSUME(range <= P_MAXRANGE);
#endif
#if P_FULL
  // the whole 32-bit range: every word is accepted and mapped bijectively
  ASSUME(range == M + 1);
  int resf = r->XbtRandom::uniform_int(min, max);
  CHECK(ndraws == 1 && resf == (int)(unsigned)((unsigned)min + (unsigned)draws[0]), "full range: the word is used as it is (a bijection, hence unbiased)");
  verif_witness();
  return;
#endif
  ASSUME(range != M + 1);
  unsigned long L = M - M % range; // acceptance bound of an unbiased rejection sampler on [0, 2^32)
#if P_MODE == 2
  // arithmetic lemma behind unbiasedness: the acceptance bound is a positive multiple of the number of values
  CHECK(L % range == 0 && L >= range, "the acceptance bound is a positive multiple of the number of values");
#else
  // first word accepted (P_MODE 0) / first word rejected, second accepted (P_MODE 3). One obligation per query (P_CHECK): the solver handles each alone.
#if P_MODE == 0
  ASSUME(draws[0] < L);
  const int K = 1;
#else
  ASSUME(draws[0] >= L && draws[1] < L);
  const int K = 2;
#endif
  int res = r->XbtRandom::uniform_int(min, max);
#if P_CHECK == 1
  CHECK(ndraws == K, "a word is accepted iff it lies below the acceptance bound (words at or above it are rejected and another one is drawn)");
#elif P_CHECK == 2
  CHECK(res >= min && res <= max, "uniform_int(min,max) is inside [min,max]");
#else
  CHECK(res == static_cast<int>(last_word % range + min), "an accepted word w yields min + (w mod range): each value has the same number of pre-images");
#endif
#endif
#else
#if P_HUGE
  static const double grid[] = {0.0, 1.0, -1.0, 0.5, 1e-300, 1e300, -1e300, 3.0, 1e9, -7.25};
#else
  static const double grid[] = {0.0, 1.0, -1.0, 0.5, 1e-300, 1e290, -1e290, 3.0, 1e9, -7.25};
#endif
  int a = nondet_int(), b = nondet_int();
  ASSUME(a >= 0 && a < 10 && b >= 0 && b < 10);
  double lo = grid[a], hi = grid[b];
  ASSUME(lo <= hi);
#if P_HUGE
  ASSUME(hi - lo > 1e299); // only the region of the recorded finding ((max-min)*2^32 overflows); everything else is in the other query
#endif
  ASSUME(draws[0] != M || draws[1] != M); // bound: at most one rejected word
  double x = r->XbtRandom::uniform_real(lo, hi);
  CHECK(x >= lo && x <= hi, "uniform_real(min,max) is inside [min,max]");
#endif
  verif_witness();
}
