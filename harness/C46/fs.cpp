// C46: accounting of the file-system plugin (real s4u_FileSystem.cpp): one File operation from an arbitrary consistent state.
// P_OP 0 write(n, false) ; 1 write(n, true) ; 2 read ; 3 seek(offset, origin) ; 4 unlink
#define VERIF_COMMON_STUBS
#include "verif.h"
#include "src/plugins/file_system/s4u_FileSystem.cpp"
using simgrid::s4u::Disk;
using simgrid::s4u::File;
using simgrid::s4u::FileSystemDiskExt;
using simgrid::s4u::Host;
static Host* the_host;
static sg_size_t io_result; // what the (stubbed) disk model reports as transferred
static std::string empty_name;
// environment: the disk I/O model, the current host, simcalls run in place
sg_size_t Disk::read(sg_size_t size) const
{
  CHECK(io_result <= size, "harness: the disk never transfers more than requested");
  return io_result;
}
sg_size_t Disk::write(sg_size_t size) const
{
  CHECK(io_result <= size, "harness: the disk never transfers more than requested");
  return io_result;
}
Host* Disk::get_host() const { return the_host; }
Host* Host::current() { return the_host; }
std::string const& Host::get_name() const { return empty_name; }
std::string const& Disk::get_name() const { return empty_name; }
const char* Disk::get_cname() const { return ""; }
void simcall_run_answered(std::function<void()> const& code, simgrid::kernel::actor::SimcallObserver*) { code(); }
void simgrid::s4u::Comm::sendto(Host*, Host*, uint64_t) {}
bool simgrid::s4u::Actor::is_maestro() { return false; }

extern "C" void harness_fs()
{
  the_host   = static_cast<Host*>(malloc(sizeof(Host)));
  Disk* disk = static_cast<Disk*>(calloc(1, sizeof(Disk)));
  new (&disk->extensions_) std::vector<void*>();
  auto* ext = static_cast<FileSystemDiskExt*>(calloc(1, sizeof(FileSystemDiskExt)));
  new (&ext->content_) std::unique_ptr<std::map<std::string, sg_size_t, std::less<>>>(new std::map<std::string, sg_size_t, std::less<>>());
  FileSystemDiskExt::EXTENSION_ID = simgrid::xbt::Extension<Disk, FileSystemDiskExt>(0);
  disk->extensions_.push_back(ext);
  File* f = static_cast<File*>(calloc(1, sizeof(File)));
  new (&f->path_) std::string();
  new (&f->fullpath_) std::string();
  new (&f->mount_point_) std::string();
  f->local_disk_ = disk;
  ext->content_->insert({f->path_, 0});
  // arbitrary consistent state: used = size of this file + size of the other files <= capacity ; position inside the file
  sg_size_t S = nondet_ulong(), others = nondet_ulong(), total = nondet_ulong(), pos = nondet_ulong();
  ASSUME(total <= (1UL << 60) && S <= total && others <= total - S && pos <= S);
  f->size_             = S;
  f->current_position_ = pos;
  ext->used_size_      = S + others;
  ext->size_           = total;
  sg_size_t n          = nondet_ulong();
  ASSUME(n <= (1UL << 60));
  io_result = nondet_ulong();
#if P_OP == 0 || P_OP == 1
  ASSUME(io_result <= n);
  sg_size_t w = f->write(n, P_OP == 1);
  CHECK(w <= n, "write reports at most the requested amount");
  CHECK(ext->get_used_size() == f->size() + others, "after a write the used size of the disk is the total size of its files");
  CHECK(f->tell() <= f->size(), "the position stays inside the file");
  if (w > 0)
    CHECK(f->tell() == pos + w && f->size() >= pos + w, "a write advances the position by what was written and the file covers it");
#elif P_OP == 2
  ASSUME(io_result <= (n < S - pos ? n : S - pos)); // the disk model transfers at most what it is asked for
  sg_size_t r = f->read(n);
  CHECK(r <= S - pos, "a read never returns more than the bytes between the position and the end of the file");
  CHECK(f->size() == S && ext->get_used_size() == S + others, "a read changes neither the file size nor the used size");
  CHECK(f->tell() == pos + r, "a read advances the position by what was read");
#elif P_OP == 3
  long off   = nondet_long();
  int origin = nondet_int();
  ASSUME(origin == SEEK_SET || origin == SEEK_CUR || origin == SEEK_END);
  long target = origin == SEEK_SET ? off : origin == SEEK_CUR ? (long)pos + off : (long)S + off;
  ASSUME(off >= -(1L << 60) && off <= (1L << 60) && target >= 0);
  f->seek(off, origin);
  CHECK(f->tell() == (sg_size_t)target, "seek moves to the requested position");
  CHECK(ext->get_used_size() == f->size() + others && f->tell() <= f->size(), "seeking past the end grows the file and the used size alike");
  CHECK(f->size() == ((sg_size_t)target > S ? (sg_size_t)target : S), "seek never shrinks a file");
#else
  int rc = f->unlink();
  CHECK(rc == 0 && ext->get_used_size() == others, "unlink gives back exactly the size of the file");
#endif
  verif_witness();
}
