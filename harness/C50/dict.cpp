// C50 (xbt_dict): a short sequence of real xbt_dict operations with symbolic keys (1..2 arbitrary non-NUL bytes, so every byte value incl. >= 0x80)
// against a map model. P_MODE 0: set k1 ; get k1 (both lookup flavours) ; 1: set k1, set k2 ; get both ; 2: set k1, set k2, remove k2 ; get k1, k2
#define VERIF_COMMON_STUBS
#include "verif.h"
#include "xbt/dict.h"
#include "xbt/mallocator.h"
#include "xbt/sysdep.h"
#include <cstring>
struct s_xbt_mallocator {
  pvoid_f_void_t new_f;
  void_f_pvoid_t free_f;
  void_f_pvoid_t reset_f;
};
static s_xbt_mallocator the_mallocator;
extern "C" xbt_mallocator_t xbt_mallocator_new(int, pvoid_f_void_t new_f, void_f_pvoid_t free_f, void_f_pvoid_t reset_f)
{
  the_mallocator.new_f   = new_f;
  the_mallocator.free_f  = free_f;
  the_mallocator.reset_f = reset_f;
  return &the_mallocator;
}
extern "C" void* xbt_mallocator_get(xbt_mallocator_t m) { return m->new_f(); }
extern "C" void xbt_mallocator_release(xbt_mallocator_t m, void* o) { m->free_f(o); }
extern "C" void xbt_mallocator_free(xbt_mallocator_t) {}
extern "C" int pthread_mutex_lock(pthread_mutex_t*) noexcept { return 0; }
extern "C" int pthread_mutex_unlock(pthread_mutex_t*) noexcept { return 0; }
extern "C" int atexit(void (*)()) noexcept { return 0; }
extern "C" void xbt_free_f(void* p) noexcept { free(p); }

static void mk_key(char* k)
{
  int len = nondet_int();
  ASSUME(len >= 1 && len <= 2);
  k[0] = static_cast<char>(nondet_uchar());
  k[1] = static_cast<char>(nondet_uchar());
  ASSUME(k[0] != 0);
  if (len == 1)
    k[1] = 0;
  else
    ASSUME(k[1] != 0);
  k[2] = 0;
}
static int v1, v2;

extern "C" void harness_dict()
{
  char k1[3], k2[3];
  mk_key(k1);
  mk_key(k2);
  bool same = k1[0] == k2[0] && k1[1] == k2[1];
  xbt_dict_t d = xbt_dict_new_homogeneous(nullptr);
  xbt_dict_set(d, k1, &v1);
  CHECK(xbt_dict_length(d) == 1, "a first insertion gives a map of one entry");
#if P_MODE == 0
  CHECK(xbt_dict_get_or_null(d, k1) == &v1, "a key that was set is found again with its value");
  CHECK(xbt_dict_get_or_null_ext(d, k1, static_cast<int>(strlen(k1))) == &v1, "both lookup flavours agree");
  CHECK(xbt_dict_get_elm_or_null(d, k1) != nullptr, "the element of a present key exists");
  if (not same)
    CHECK(xbt_dict_get_or_null(d, k2) == nullptr, "a key that was never set is absent");
#else
  xbt_dict_set(d, k2, &v2);
  CHECK(xbt_dict_length(d) == (same ? 1 : 2), "setting an existing key replaces, setting a new key adds");
#if P_MODE == 1
  CHECK(xbt_dict_get_or_null(d, k2) == &v2, "the last value set under a key is the one returned");
  CHECK(xbt_dict_get_or_null(d, k1) == (same ? &v2 : &v1), "other keys keep their value");
#else
  xbt_dict_remove_ext(d, k2, static_cast<int>(strlen(k2)));
  CHECK(xbt_dict_get_or_null(d, k2) == nullptr, "a removed key is absent");
  CHECK(xbt_dict_length(d) == (same ? 0 : 1), "removal takes exactly one entry out");
  if (not same)
    CHECK(xbt_dict_get_or_null(d, k1) == &v1, "removing a key leaves the others");
#endif
#endif
  verif_witness();
}
