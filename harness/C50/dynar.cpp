// C50: one xbt_dynar operation from an arbitrary valid dynar, against an array model. Shape: P_ELM (element size 4 or 8), P_SIZE (capacity 0..4), P_OP.
// Symbolic: number of used slots (<= capacity), every element, the index, the new value.
#define VERIF_COMMON_STUBS
#include "verif.h"
#include "xbt/dynar.h"
#include "xbt/sysdep.h"
#if P_ELM == 4
typedef unsigned int elm_t;
#define ND_ELM() nondet_uint()
#else
typedef unsigned long elm_t;
#define ND_ELM() nondet_ulong()
#endif
#define OP_INSERT 0
#define OP_REMOVE 1
#define OP_PUSH 2
#define OP_POP 3
#define OP_SHIFT 4
#define OP_UNSHIFT 5
#define OP_SET 6
#define OP_GET 7
#define OP_MEMBER 8

extern "C" void harness_dynar()
{
  xbt_dynar_t d = xbt_dynar_new(sizeof(elm_t), nullptr);
  elm_t ref[P_SIZE + 2];
  unsigned long used = nondet_ulong();
  ASSUME(used <= P_SIZE);
#if P_SIZE > 0
  d->data = malloc(P_SIZE * sizeof(elm_t));
  d->size = P_SIZE;
  for (unsigned long i = 0; i < P_SIZE; i++) {
    ref[i] = ND_ELM();
    static_cast<elm_t*>(d->data)[i] = ref[i];
  }
#endif
  d->used = used;
  elm_t val = ND_ELM(), out = 0;
  int idx   = nondet_int();
#if P_OP == OP_INSERT || P_OP == OP_PUSH || P_OP == OP_UNSHIFT
#if P_OP == OP_INSERT
  ASSUME(idx >= 0 && (unsigned long)idx <= used);
  xbt_dynar_insert_at(d, idx, &val);
#elif P_OP == OP_PUSH
  idx = (int)used;
  xbt_dynar_push(d, &val);
#else
  idx = 0;
  xbt_dynar_unshift(d, &val);
#endif
  CHECK(xbt_dynar_length(d) == used + 1 && d->size >= d->used, "insertion adds exactly one element and the capacity covers the length");
  for (unsigned long i = 0; i < used + 1 && i < P_SIZE + 1; i++) {
    elm_t got;
    xbt_dynar_get_cpy(d, i, &got);
    elm_t exp = i < (unsigned long)idx ? ref[i] : i == (unsigned long)idx ? val : ref[i - 1];
    CHECK(got == exp, "insertion puts the value at the index and shifts the later elements right, like a growable array");
  }
#elif P_OP == OP_REMOVE || P_OP == OP_POP || P_OP == OP_SHIFT
  ASSUME(used >= 1);
#if P_OP == OP_REMOVE
  ASSUME(idx >= 0 && (unsigned long)idx < used);
  xbt_dynar_remove_at(d, idx, &out);
#elif P_OP == OP_POP
  idx = (int)used - 1;
  xbt_dynar_pop(d, &out);
#else
  idx = 0;
  xbt_dynar_shift(d, &out);
#endif
  CHECK(out == ref[idx], "removal returns the element that was at the index");
  CHECK(xbt_dynar_length(d) == used - 1, "removal takes exactly one element out");
  for (unsigned long i = 0; i + 1 < used && i < P_SIZE; i++) {
    elm_t got;
    xbt_dynar_get_cpy(d, i, &got);
    CHECK(got == (i < (unsigned long)idx ? ref[i] : ref[i + 1]), "removal shifts the later elements left, like a growable array");
  }
#elif P_OP == OP_SET
  ASSUME(idx >= 0 && idx <= P_SIZE + 1);
  xbt_dynar_set_at_ptr(d, idx);
  *static_cast<elm_t*>(xbt_dynar_set_at_ptr(d, idx)) = val;
  unsigned long nused = (unsigned long)idx >= used ? (unsigned long)idx + 1 : used;
  CHECK(xbt_dynar_length(d) == nused && d->size >= d->used, "set extends the array up to the index when needed");
  for (unsigned long i = 0; i < nused && i < P_SIZE + 2; i++) {
    elm_t got;
    xbt_dynar_get_cpy(d, i, &got);
    elm_t exp = i == (unsigned long)idx ? val : i < used ? ref[i] : 0;
    CHECK(got == exp, "set writes the slot, keeps the other elements and zero-fills the gap");
  }
#elif P_OP == OP_GET
  ASSUME(idx >= 0 && (unsigned long)idx < used);
  xbt_dynar_get_cpy(d, idx, &out);
  CHECK(out == ref[idx] && *static_cast<elm_t*>(xbt_dynar_get_ptr(d, idx)) == ref[idx], "get returns the element at the index");
  CHECK(xbt_dynar_length(d) == used && xbt_dynar_is_empty(d) == (used == 0), "get does not change the array");
#else
  bool in = false;
  for (unsigned long i = 0; i < used && i < P_SIZE; i++)
    if (ref[i] == val)
      in = true;
  CHECK((xbt_dynar_member(d, &val) != 0) == in, "member tells whether some element equals the value");
#endif
  verif_witness();
}
