// Shared scaffolding for the kernel synchronisation harnesses (C05, C06, C07, C12, C39): bare actors, answer log, environment stubs.
#pragma once
#define VERIF_COMMON_STUBS
#include "verif.h"
#include "src/kernel/actor/ActorImpl.hpp"
#include "src/kernel/activity/ActivityImpl.hpp"
#include "simgrid/kernel/resource/Action.hpp"
#include "simgrid/s4u/Host.hpp"
#include <new>
using namespace simgrid::kernel;
using actor::ActorImpl;
#ifndef NA
#define NA 6
#endif
static int answered[NA];       // how many times actor i was answered (woken)
static int answer_log[4 * NA]; // order of the answers (actor indices)
static int n_answers;
static ActorImpl* actors[NA];

void simgrid::kernel::actor::ActorImpl::simcall_answer()
{
  answered[pid_ - 1]++;
  if (n_answers < 4 * NA)
    answer_log[n_answers] = static_cast<int>(pid_ - 1);
  n_answers++;
}
bool simgrid::s4u::Host::is_on() const { return true; }
void simgrid::kernel::actor::ActorImpl::set_wannadie(bool v) { iwannadie_ = v; }
simgrid::kernel::actor::ObjectAccessSimcallItem::ObjectAccessSimcallItem() { simcall_owner_ = nullptr; }
#ifndef KSYNC_OWN_MC
extern "C" int MC_is_active() { return 0; }
#endif

static ActorImpl* mk_actor(int i)
{
  ActorImpl* a = static_cast<ActorImpl*>(calloc(1, sizeof(ActorImpl)));
  new (&a->waiting_synchros_) std::vector<activity::ActivityImplPtr>();
  new (&a->activities_) std::set<activity::ActivityImplPtr>();
  a->simcall_.issuer_ = a;
  a->simcall_.call_   = actor::Simcall::Type::RUN_BLOCKING;
  a->pid_             = i + 1;
  a->refcount_        = 1;
  return a;
}
static void mk_actors()
{
  for (int i = 0; i < NA; i++)
    actors[i] = mk_actor(i);
}
static void reset_answers()
{
  for (int i = 0; i < NA; i++)
    answered[i] = 0;
  n_answers = 0;
}
static int total_answers()
{
  int s = 0;
  for (int i = 0; i < NA; i++)
    s += answered[i];
  return s;
}
// a timeout (sleep) action whose state is decided by the harness: the model layer is not part of these checks
static int fake_action_state[NA];
static int fake_action_unrefs[NA];
static resource::Action* fake_action(int i) { return reinterpret_cast<resource::Action*>(&fake_action_state[i]); }
simgrid::kernel::resource::Action::State simgrid::kernel::resource::Action::get_state() const
{
  return static_cast<State>(*reinterpret_cast<const int*>(this));
}
bool simgrid::kernel::resource::Action::unref()
{
  fake_action_unrefs[reinterpret_cast<int*>(this) - fake_action_state]++;
  return false;
}
