// Common declarations for harnesses (compiled with the repository's flags, translated to C by ll2c).
#pragma once
#include <cstddef>
extern "C" {
int nondet_int();
unsigned nondet_uint();
long nondet_long();
unsigned long nondet_ulong();
unsigned char nondet_uchar();
unsigned short nondet_ushort();
short nondet_short();
double nondet_double();
float nondet_float();
void __CPROVER_assume(bool);
void __CPROVER_assert(bool, const char*);
void verif_witness(); // last statement of every harness: its twin assert(false) must be reported reachable
}
#define ASSUME(c) __CPROVER_assume(c)
#define CHECK(c, msg) __CPROVER_assert((c), msg)
// Environment shared by most harnesses: logging is silent, abort() (= failed xbt_assert / xbt_die) is a violation
// unless the harness defines VERIF_ABORT_IS_EXPECTED and handles it itself.
#ifdef VERIF_COMMON_STUBS
#include "xbt/log.h"
extern "C" int _xbt_log_cat_init(xbt_log_category_t, e_xbt_log_priority_t) { return 0; }
extern "C" void _xbt_log_event_log(xbt_log_event_t, const char*, ...) {}
extern "C" void xbt_backtrace_display_current() {}
#include "xbt/asserts.h"
extern "C" void abort() noexcept;
extern "C" void xbt_abort() // xbt_die() ends here
{
  abort();
  __builtin_unreachable();
}
#ifndef VERIF_OWN_ABORT
extern "C" void abort() noexcept
{
  __CPROVER_assert(false, "abort() reached (xbt_assert / xbt_die failure)");
  __CPROVER_assume(false);
  __builtin_unreachable();
}
#endif
#endif
