"""Driver of the solver-based checks: real C++ -> LLVM IR -> C (ll2c) -> CBMC, witness twin, native replay,
translator validation, evidence.  See DESIGN.md section 2."""
import concurrent.futures as cf
import hashlib
import json
import os
import random
import re
import resource
import shutil
import subprocess
import sys
import time

VERIF = os.path.dirname(os.path.dirname(os.path.abspath(__file__)))
REPO = os.environ.get("VERIF_REPO", "/repo")
CACHE = os.path.join(VERIF, ".cache")
LL2C = os.environ.get("VERIF_LL2C") or os.path.join(CACHE, "ll2c")
BUILD_INC = "/repo/_build" if os.path.exists("/repo/_build/include/simgrid/config.h") else os.path.join(CACHE, "repo_build")
INC = [f"-I{BUILD_INC}/include", f"-I{REPO}/include", "-I/usr/include/eigen3", f"-I{BUILD_INC}", f"-I{REPO}",
       f"-I{REPO}/src/smpi/include", f"-I{VERIF}/harness"]
CXXFLAGS = ["-std=gnu++20", "-O1", "-fno-vectorize", "-fno-slp-vectorize", "-fno-unroll-loops", "-ffp-contract=off",
            "-fno-access-control", "-DNDEBUG", "-DSIMGRID_VERIF", "-flto", "-fwhole-program-vtables", "-fvisibility=hidden", "-w"]
OPT_PASSES = ("internalize,globaldce,wholeprogramdevirt,lowertypetests,lowerinvoke,simplifycfg,loweratomic,scalarizer,"
              "instcombine,simplifycfg,globaldce")
WITNESS_LABEL = "witness reachable"
BOUND_LABELS = ("unwinding assertion", "allocation capacity bound", "mem* length bound", "recursion unwinding assertion")
NJOBS = int(os.environ.get("VERIF_JOBS", "10"))  # measured: no throughput gain beyond ~8 concurrent cbmc on this VM


class Query:
    def __init__(self, name, harness, entry, defs=None, sources=(), unwind=4, backend="minisat", paths=False, cap_s=300,
                 mem_gb=8, ll2c_cap=8, memcap=8, extra_cbmc=(), keep_ctors=False, tiers=("quick", "thorough"),
                 nsym=None, note="", allow_undefined=(), nin=64, no_pointer_overflow=False, cross=None, expect=None, prelude=(), noopt=False):
        self.name = name
        self.harness = harness
        self.entry = entry
        self.defs = dict(defs or {})
        self.sources = list(sources)
        self.unwind = unwind
        self.backend = backend
        self.paths = paths
        self.cap_s = int(os.environ.get("VERIF_CAP", cap_s))
        self.mem_gb = mem_gb
        self.ll2c_cap = ll2c_cap
        self.memcap = memcap
        self.extra_cbmc = list(extra_cbmc)
        self.keep_ctors = keep_ctors
        self.tiers = tiers
        self.note = note
        self.allow_undefined = set(allow_undefined)
        self.nin = nin
        self.no_pointer_overflow = no_pointer_overflow
        self.cross = cross  # optional second back end (thorough cross-check)
        self.noopt = noopt  # compile without -O1/instcombine (keeps arithmetic in source form, e.g. M - M % r instead of xor)
        self.prelude = list(prelude)  # extra models to link: "string" (real libstdc++ basic_string<char> instantiated), "rbtree"
        self.validate = False  # set by run_property on a seeded sample of the queries
        self.expect = expect  # None, or a label that MUST fail (used for negative self-tests of the machinery)

    def key(self):
        return self.name


class Result:
    def __init__(self, q):
        self.q = q
        self.status = "error"  # holds | violation | known | vacuous | inconclusive | bound | error | unconfirmed
        self.detail = ""
        self.failed_labels = []
        self.solver_s = 0.0
        self.build_s = 0.0
        self.rss_kb = 0
        self.nprops = 0
        self.nsym = 0
        self.witness = False
        self.replay_file = None
        self.confirmed = []
        self.funcs = []
        self.validated_vectors = 0
        self.vcc = 0
        self.cross_status = None
        self.san_reports = []
        self.nasserts = 0


def sh(cmd, cwd=None, timeout=None, env=None, mem_gb=None, inp=None):
    def lim():
        if mem_gb:
            b = int(mem_gb * (1 << 30))
            resource.setrlimit(resource.RLIMIT_AS, (b, b))
        os.setsid()
    t0 = time.time()
    rssf = None
    if mem_gb:  # measured per process (RUSAGE_CHILDREN would report the maximum over all children so far)
        import tempfile
        rssf = tempfile.mktemp(prefix="rss_", dir=os.path.join(VERIF, ".work"))
        cmd = ["/usr/bin/time", "-f", "%M", "-o", rssf] + list(cmd)
    p = subprocess.Popen(cmd, cwd=cwd, env=env, stdout=subprocess.PIPE, stderr=subprocess.PIPE, preexec_fn=lim,
                         stdin=subprocess.PIPE if inp is not None else subprocess.DEVNULL)
    try:
        out, err = p.communicate(inp, timeout=timeout)
        to = False
    except subprocess.TimeoutExpired:
        try:
            os.killpg(p.pid, 9)
        except Exception:
            p.kill()
        out, err = p.communicate()
        to = True
    rss = 0
    if rssf:
        try:
            rss = int(open(rssf).read().split()[-1])
        except Exception:
            rss = 0
        try:
            os.remove(rssf)
        except OSError:
            pass
    return p.returncode, out.decode(errors="replace"), err.decode(errors="replace"), to, time.time() - t0, rss


def cxxflags(noopt):
    if not noopt:
        return CXXFLAGS
    return [f for f in CXXFLAGS if f != "-O1"] + ["-O0", "-Xclang", "-disable-O0-optnone"]


def compile_source_bc(src, outdir, noopt=False):
    """repo TU -> bitcode (cached per run in outdir)"""
    h = hashlib.sha1((src + str(noopt)).encode()).hexdigest()[:10]
    out = os.path.join(outdir, os.path.basename(src).replace(".cpp", "").replace(".c", "") + "_" + h + ".bc")
    if os.path.exists(out):
        return out, ""
    path = src if os.path.isabs(src) else os.path.join(REPO, src)
    import threading
    tmp = out + f".tmp{os.getpid()}_{threading.get_ident()}"
    if path.endswith(".c"):  # C translation units of the repository (dict_elm.c, ...)
        cflags = [f for f in cxxflags(noopt) if not f.startswith("-std=") and f not in ("-fwhole-program-vtables", "-fno-access-control")] + ["-std=gnu11"]
        rc, o, e, to, dt, _ = sh(["clang-14"] + cflags + INC + ["-c", "-emit-llvm", path, "-o", tmp], timeout=600)
    else:
        rc, o, e, to, dt, _ = sh(["clang++-14"] + cxxflags(noopt) + INC + ["-c", "-emit-llvm", path, "-o", tmp], timeout=600)
    if rc != 0:
        return None, e[-3000:]
    os.replace(tmp, out)
    return out, ""


def build_query(q, wd, bcdir):
    """harness + real sources -> C. returns (cfile, err)"""
    os.makedirs(wd, exist_ok=True)
    hsrc = os.path.join(VERIF, "harness", q.harness)
    defs = [f"-D{k}={v}" for k, v in q.defs.items()]
    hbc = os.path.join(wd, "h.bc")
    rc, o, e, to, dt, _ = sh(["clang++-14"] + cxxflags(q.noopt) + INC + defs + ["-c", "-emit-llvm", hsrc, "-o", hbc], timeout=600)
    if rc != 0:
        return None, "harness compile failed (a signature of the real code changed?):\n" + e[-3000:]
    bcs = [hbc, os.path.join(bcdir, "cxxrt.bc")] + [os.path.join(bcdir, f"cxxrt_{x}.bc") for x in q.prelude]
    for s in q.sources:
        b, err = compile_source_bc(s, bcdir, q.noopt)
        if b is None:
            return None, f"compile of {s} failed:\n{err}"
        bcs.append(b)
    linked = os.path.join(wd, "linked.bc")
    rc, o, e, to, dt, _ = sh(["llvm-link-14"] + bcs + ["-o", linked], timeout=300)
    if rc != 0:
        return None, "llvm-link failed:\n" + e[-3000:]
    ll = os.path.join(wd, "h.2.ll")
    passes = OPT_PASSES if not q.noopt else OPT_PASSES.replace("scalarizer,instcombine,", "scalarizer,sroa,mem2reg,")
    rc, o, e, to, dt, _ = sh(["opt-14", f"-passes={passes}", "-whole-program-visibility",
                              "-wholeprogramdevirt-branch-funnel-threshold=0",
                              f"-internalize-public-api-list={q.entry}", linked, "-S", "-o", ll], timeout=600)
    if rc != 0:
        return None, "opt failed:\n" + e[-3000:]
    cfile = os.path.join(wd, "out.c")
    cmd = [LL2C, ll, cfile, q.entry] + (["--keep-ctors"] if q.keep_ctors else [])
    rc, o, e, to, dt, _ = sh(cmd, timeout=300)
    if rc != 0:
        return None, "ll2c failed:\n" + e[-3000:]
    for f in (hbc, linked):
        try:
            os.remove(f)
        except OSError:
            pass
    return cfile, ""


def cbmc_cmd(q, cfile, witness, trace, backend=None):
    backend = backend or q.backend
    cmd = ["cbmc", cfile, "--function", "ll2c_main", "--unwind", str(q.unwind), "--unwinding-assertions",
           "--no-malloc-may-fail", "--drop-unused-functions", "--undefined-shift-check", "--signed-overflow-check",
           "--json-ui", "--object-bits", "10", f"-DLL2C_CAP={q.ll2c_cap}UL", f"-DLL2C_MEMCAP={q.memcap}UL", f"-DLL2C_NIN={q.nin}"]
    if not q.no_pointer_overflow:
        cmd.append("--pointer-overflow-check")
    if witness:
        cmd.append("-DLL2C_WITNESS")
    if trace:
        cmd.append("--trace")
    if q.paths:
        cmd += ["--paths", "lifo"]
    env = dict(os.environ)
    if backend == "cadical":
        cmd += ["--sat-solver", "cadical"]
    elif backend == "kissat":
        cmd += ["--external-sat-solver", "kissat"]
    elif backend == "z3":
        cmd += ["--z3"]
    elif backend == "cvc5int":
        cmd += ["--cvc5", "--slice-formula"]
        env["PATH"] = os.path.join(CACHE, "shim") + ":" + env["PATH"]
    elif backend == "cvc5":
        cmd += ["--cvc5"]
    cmd += q.extra_cbmc
    return cmd, env


def parse_cbmc(out):
    """returns (results list of (name, description, status, trace), messages, cprover_status)"""
    try:
        js = json.loads(out)
    except Exception:
        # truncated JSON (killed): try to salvage nothing
        return None, [], None
    res, msgs, st = [], [], None
    for el in js:
        if "result" in el:
            for r in el["result"]:
                res.append((r.get("property", ""), r.get("description", ""), r.get("status", ""), r.get("trace")))
        elif "messageText" in el:
            msgs.append(el["messageText"])
        elif "cProverStatus" in el:
            st = el["cProverStatus"]
    return res, msgs, st


def inputs_from_trace(trace):
    """the harness input vector: last values assigned to ll2c_in[k]"""
    vals = {}
    for st in trace or []:
        if st.get("stepType") != "assignment":
            continue
        lhs = st.get("lhs", "")
        m = re.match(r"ll2c_in\[(\d+)[lLuU]*\]$", lhs)
        if not m:
            continue
        v = st.get("value", {})
        b = v.get("binary")
        if b is None:
            try:
                x = int(v.get("data", "0").rstrip("ulUL")) & ((1 << 64) - 1)
            except Exception:
                x = 0
        else:
            x = int(b, 2)
        vals[int(m.group(1))] = x
    n = max(vals) + 1 if vals else 0
    r = [vals.get(i, 0) for i in range(n)]
    if not r:
        # (formula slicing removes the log array: fall back to the draws themselves, in execution order)
        for st in trace or []:
            if st.get("stepType") == "assignment" and st.get("lhs") == "nd" and \
                    str(st.get("sourceLocation", {}).get("function", "")).startswith("nondet_"):
                b = st.get("value", {}).get("binary")
                if b is not None:
                    r.append(int(b, 2))
    while r and r[-1] == 0:  # unread slots (the native runtime returns 0 when the vector is exhausted)
        r.pop()
    return r


def native_ir_binary(q, wd):
    exe = os.path.join(wd, "replay_ir")
    if os.path.exists(exe):
        return exe, ""
    rc, o, e, to, dt, _ = sh(["clang++-14", "-O1", "-w", "-x", "ir", os.path.join(wd, "out.c.ll"), "-x", "c",
                              "-DLL2C_IR_NATIVE", f"-DENTRY={q.entry}", os.path.join(VERIF, "tools", "rt_native.c"),
                              "-o", exe, "-lm"], timeout=600)
    if rc != 0:
        return None, e[-2000:]
    return exe, ""


def native_ir_san_binary(q, wd):
    """same as native_ir_binary with ASan+UBSan: confirms CBMC's built-in memory-safety / arithmetic checks"""
    exe = os.path.join(wd, "replay_ir_san")
    if os.path.exists(exe):
        return exe, ""
    rc, o, e, to, dt, _ = sh(["clang++-14", "-O1", "-w", "-fsanitize=address,undefined", "-fno-sanitize-recover=undefined", "-x", "ir",
                              os.path.join(wd, "out.c.ll"), "-x", "c", "-DLL2C_IR_NATIVE", f"-DENTRY={q.entry}",
                              os.path.join(VERIF, "tools", "rt_native.c"), "-o", exe, "-lm"], timeout=600)
    if rc != 0:
        return None, e[-2000:]
    return exe, ""


def run_native_san(exe, inputs, wd):
    f = os.path.join(wd, "in_san.txt")
    with open(f, "w") as fh:
        fh.write("\n".join(hex(x) for x in inputs) + "\n")
    env = dict(os.environ, LL2C_INPUT=f, ASAN_OPTIONS="detect_leaks=0:abort_on_error=0:alloc_dealloc_mismatch=0:new_delete_type_mismatch=0", UBSAN_OPTIONS="print_stacktrace=0")
    rc, o, e, to, dt, _ = sh([exe], timeout=120, env=env)
    m = re.search(r"(ERROR: AddressSanitizer: (?:heap-use-after-free|heap-buffer-overflow|stack-buffer-overflow|global-buffer-overflow|"
                  r"stack-use-after-scope|SEGV|attempting double-free|FPE|dynamic-stack-buffer-overflow)[^\n]*|runtime error: [^\n]*)", e)
    return m.group(1)[:200] if m else None


def native_c_binary(q, wd):
    exe = os.path.join(wd, "replay_c")
    if os.path.exists(exe):
        return exe, ""
    rc, o, e, to, dt, _ = sh(["gcc", "-O0", "-w", "-fno-builtin", "-fwrapv", "-fno-strict-aliasing", f"-I{VERIF}/tools", f"-DLL2C_CAP={q.ll2c_cap}UL",
                              f"-DLL2C_MEMCAP={q.memcap}UL", os.path.join(wd, "out.c"),
                              os.path.join(VERIF, "tools", "rt_native.c"), "-o", exe, "-lm"], timeout=600)
    if rc != 0:
        return None, e[-2000:]
    return exe, ""


def run_native(exe, inputs, wd, tag):
    f = os.path.join(wd, f"in_{tag}.txt")
    with open(f, "w") as fh:
        fh.write("\n".join(hex(x) for x in inputs) + "\n")
    env = dict(os.environ, LL2C_INPUT=f)
    rc, o, e, to, dt, _ = sh([exe], timeout=60, env=env, mem_gb=4)
    lines = [l for l in o.splitlines() if l.startswith("A ") or l in ("ASSUME-STOP", "END")]
    if rc not in (0,) and not to:
        lines.append(f"CRASH rc={rc}")
    if to:
        lines.append("TIMEOUT")
    return lines


def validate_translation(q, wd, seed, nvec):
    """translator validation: generated C (gcc) against the clang-compiled IR on pseudo-random input vectors"""
    a, ea = native_ir_binary(q, wd)
    b, eb = native_c_binary(q, wd)
    if a is None or b is None:
        return 0, "native build failed: " + (ea or eb)
    rnd = random.Random(seed * 7919 + len(q.name))
    pool = [0, 1, 2, 3, 4, 5, 6, 7, 8, 9, 15, 16, 100, (1 << 31) - 1, 1 << 31, (1 << 32) - 1, (1 << 63), (1 << 64) - 1,
            0x3ff0000000000000, 0x4000000000000000, 0x3fe0000000000000, 0x4024000000000000, 0xbff0000000000000]
    n = 0
    for k in range(nvec):
        small = rnd.random() < 0.6
        vec = [(rnd.randrange(0, 6) if small else rnd.choice(pool)) if rnd.random() < 0.9 else rnd.getrandbits(64)
               for _ in range(q.nin)]
        la = run_native(a, vec, wd, "va")
        lb = run_native(b, vec, wd, "vb")
        if any(l.startswith("A FAIL") and any(x in l for x in BOUND_LABELS) for l in lb):
            continue  # vector exceeds a capacity bound of the encoding: not comparable
        lb = [l for l in lb if not any(x in l for x in BOUND_LABELS)]
        # crashes after a failed assertion are not compared (both continue past failed assertions)
        if la != lb:
            fa = any(l.startswith("A FAIL") for l in la) or any(l.startswith("A FAIL") for l in lb)
            ca = [l for l in la if not l.startswith("CRASH")]
            cb = [l for l in lb if not l.startswith("CRASH")]
            if fa and ca[:len(cb)] == cb[:len(ca)]:
                n += 1
                continue
            return n, f"generated C and compiled IR disagree on vector {vec}: {la[-3:]} vs {lb[-3:]}"
        n += 1
    return n, ""


def count_symbolic(cfile):
    # number of distinct nondet input sources in the generated C that are called at least once
    s = open(cfile).read()
    return len(re.findall(r"= nondet_\w+\(\)", s))


def run_query(q, wd, bcdir, tier, seed, known):
    r = Result(q)
    t0 = time.time()
    cfile, err = build_query(q, wd, bcdir)
    r.build_s = time.time() - t0
    if cfile is None:
        r.status, r.detail = "error", err
        return r
    r.funcs = [l.strip() for l in open(cfile + ".funcs") if l.strip()]
    r.nsym = count_symbolic(cfile)
    incremental = q.backend in ("minisat", "cadical")  # (also in path mode: every property, witness included, is reported in one run)
    runs = [(True, False)] if incremental else [(False, False), (True, False)]
    failed = []
    undecided = []
    wit = False
    for witness, trace in runs:
        cmd, env = cbmc_cmd(q, cfile, witness, trace)
        rc, out, errt, to, dt, rss = sh(cmd, timeout=q.cap_s, env=env, mem_gb=q.mem_gb)
        r.solver_s += dt
        r.rss_kb = max(r.rss_kb, rss)
        if to:
            r.status, r.detail = "inconclusive", f"cap of {q.cap_s}s reached"
            return r
        res, msgs, st = parse_cbmc(out)
        if res is None or st is None:
            memhit = "std::bad_alloc" in errt or "Out of memory" in errt or rc in (-9, -6, 134, 137)
            r.status = "inconclusive" if memhit else "error"
            r.detail = ("memory cap reached" if memhit else "cbmc gave no verdict") + ": " + (errt[-500:] or out[-500:])
            return r
        for m in msgs:
            mm = re.search(r"no body for (?:callee|function) (\S+)", m)
            if mm and not mm.group(1).startswith("nondet") and mm.group(1) not in q.allow_undefined:
                r.status, r.detail = "error", "cbmc: " + m
                return r
            mm = re.search(r"Generated (\d+) VCC\(s\), (\d+) remaining", m)
            if mm:
                r.vcc = max(r.vcc, int(mm.group(2)))
        r.nprops = max(r.nprops, len(res))
        for name, desc, status, tr in res:
            if status in ("FAILURE",):
                if desc == WITNESS_LABEL:
                    wit = True
                else:
                    failed.append((name, desc))
            elif status not in ("SUCCESS",):
                if desc != WITNESS_LABEL:
                    undecided.append((name, status))
        if q.paths and st == "failure" and not res:
            failed.append(("?", "?"))
    r.witness = wit
    failed = sorted(set(failed))
    if undecided and not failed:  # (CBMC reports UNKNOWN for checks that come after a failed one: only an error when nothing failed)
        r.status, r.detail = "error", f"property {undecided[0][0]} status {undecided[0][1]}"
        return r
    nobody = [d for n, d in failed if d.startswith("no body: ")]
    if nobody:
        r.status, r.detail = "error", "the real code reaches a function that has neither body nor stub (signature changed?): " + "; ".join(sorted(set(nobody))[:5])
        return r
    bound = [d for n, d in failed if any(b in d for b in BOUND_LABELS)]
    if bound:
        r.status, r.detail = "bound", "bound exceeded: " + "; ".join(sorted(set(bound))[:3])
        return r
    if not failed:
        labels = set(re.findall(r'__CPROVER_assert\([^;]*?, "([^"]*)"\)', open(cfile).read()))
        labels -= {WITNESS_LABEL, "allocation capacity bound", "mem* length bound", "llvm.trap reached", "llvm unreachable reached"}
        labels = {l for l in labels if not l.startswith(("no body: ", "cxxrt:", "std::", "pure virtual", "abort() reached"))}
        r.nasserts = len(labels)
        if not labels:
            r.status, r.detail = "vacuous", "the translated harness contains no property assertion (preprocessor shape selects nothing?)"
            return r
        if not wit:
            r.status, r.detail = "vacuous", "witness twin unreachable: the harness never reaches its last statement"
            return r
        r.status = "holds"
        if q.cross and tier == "thorough":
            cmd, env = cbmc_cmd(q, cfile, False, False, backend=q.cross)
            rc, out, errt, to, dt, rss = sh(cmd, timeout=q.cap_s, env=env, mem_gb=q.mem_gb)
            res2, _, st2 = parse_cbmc(out)
            if to or res2 is None:
                r.cross_status = "no verdict"
            else:
                bad = [d for n, d, s, t in res2 if s == "FAILURE"]
                r.cross_status = "agrees" if not bad else "DISAGREES: " + bad[0]
                if bad:
                    r.status, r.detail = "error", f"back ends disagree ({q.backend} vs {q.cross}): {bad[0]}"
                    return r
        nvec = 8 if tier == "quick" else 40
        if os.environ.get("VERIF_NOVALIDATE") or not q.validate:
            nvec = 0
        if nvec:
            n, verr = validate_translation(q, wd, seed, nvec)
            r.validated_vectors = n
            if verr:
                r.status, r.detail = "error", "translator validation: " + verr
        return r
    # a real assertion failed: get the counterexample and replay it on the natively compiled real code
    r.failed_labels = sorted(set(d for n, d in failed))
    cmd, env = cbmc_cmd(q, cfile, False, True)
    rc, out, errt, to, dt, rss = sh(cmd, timeout=q.cap_s * 2, env=env, mem_gb=q.mem_gb)
    r.solver_s += dt
    res, msgs, st = parse_cbmc(out)
    traces = {}
    if res:
        for name, desc, status, tr in res:
            if status == "FAILURE" and tr and desc not in traces:
                traces[desc] = inputs_from_trace(tr)
    exe, e2 = native_ir_binary(q, wd)
    confirmed, unconf = [], []
    harness_labels = set(re.findall(r'__CPROVER_assert\([^;]*?, "([^"]*)"\)', open(cfile).read()))
    for desc in r.failed_labels:
        inp = traces.get(desc)
        if inp is None or exe is None:
            unconf.append(desc)
            continue
        lines = run_native(exe, inp, wd, "cex")
        hit = any(l == "A FAIL " + desc for l in lines)
        if hit:
            confirmed.append((desc, inp))
            continue
        if desc not in harness_labels:  # a built-in check of CBMC (bounds, dereference, division by zero, overflow ...): ask the sanitizers
            sexe, e3 = native_ir_san_binary(q, wd)
            rep = run_native_san(sexe, inp, wd) if sexe else None
            if rep:
                confirmed.append((desc, inp))
                r.san_reports.append(rep)
                continue
        unconf.append(desc)
    r.confirmed = confirmed
    if confirmed:
        allknown = all(known(q, d) for d, _ in confirmed)
        rp = os.path.join(VERIF, ".work", "replays")
        os.makedirs(rp, exist_ok=True)
        desc, inp = confirmed[0] if allknown else [c for c in confirmed if not known(q, c[0])][0]
        r.replay_file = os.path.join(rp, f"{q.name}.replay.json")
        json.dump({"query": q.name, "harness": q.harness, "entry": q.entry, "defs": q.defs, "sources": q.sources, "prelude": q.prelude,
                   "keep_ctors": q.keep_ctors, "noopt": q.noopt, "label": desc, "inputs": [hex(x) for x in inp]}, open(r.replay_file, "w"), indent=1)
        r.status = "known" if allknown else "violation"
        r.detail = "; ".join(d for d, _ in confirmed) + ("  [sanitizer: " + "; ".join(r.san_reports[:2]) + "]" if r.san_reports else "")
    else:
        r.status = "unconfirmed"
        r.detail = "CBMC counterexample did not reproduce on the natively compiled code: " + "; ".join(unconf)
    return r


def build_prelude(bcdir):
    for f in ("cxxrt", "cxxrt_string", "cxxrt_rbtree", "cxxrt_nostring", "cxxrt_hash"):
        rc, o, e, to, dt, _ = sh(["clang++-14", "-std=gnu++20", "-O1", "-fno-exceptions", "-flto", "-fvisibility=hidden", "-w", "-c", "-emit-llvm",
                                  os.path.join(VERIF, "tools", f + ".cpp"), "-o", os.path.join(bcdir, f + ".bc")])
        if rc != 0:
            print("prelude build failed:\n" + e)
            return False
    return True


def load_known():
    path = os.path.join(VERIF, "known_findings.txt")
    ents = []
    if os.path.exists(path):
        for l in open(path):
            l = l.strip()
            if not l or l.startswith("#") or l.startswith("fixed:"):
                continue
            m = re.match(r"known:\s+property=(\S+)\s+query=(\S+)\s+label=\"([^\"]*)\"\s*(.*)", l)
            if m:
                ents.append((m.group(1), re.compile(m.group(2) + "$"), m.group(3), m.group(4)))
    return ents


def demangle(names):
    if not names:
        return []
    try:
        p = subprocess.run(["c++filt"], input="\n".join(names), capture_output=True, text=True)
        return p.stdout.splitlines()
    except Exception:
        return names


def run_property(pid, mod, tier, seed):
    t0 = time.time()
    work = os.path.join(VERIF, ".work", pid)
    shutil.rmtree(work, ignore_errors=True)
    os.makedirs(work)
    bcdir = os.path.join(work, "bc")
    os.makedirs(bcdir)
    qs = [q for q in mod.queries(tier) if tier in q.tiers]
    only = os.environ.get("VERIF_ONLY")
    if only:
        qs = [q for q in qs if re.search(only, q.name)]
    assert len(set(q.name for q in qs)) == len(qs), "duplicate query names"
    # a thorough tier with a very large population of shapes runs every shape of the quick tier plus a fixed, evenly strided sample of the others
    # (the sample is fixed so that what is registered is what was run on the unchanged tree)
    population = len(qs)
    tmax = int(os.environ.get("VERIF_THOROUGH_MAX", "0") or 0) or getattr(mod, "THOROUGH_MAX", 0)
    if tier == "thorough" and tmax and len(qs) > tmax and not only:
        quick_names = set(q.name for q in mod.queries("quick"))
        keep = [q for q in qs if q.name in quick_names]
        rest = [q for q in qs if q.name not in quick_names]
        k = max(0, tmax - len(keep))
        picked = [rest[(i * len(rest)) // k] for i in range(k)] if k and rest else []
        chosen = set(q.name for q in keep) | set(q.name for q in picked)
        qs = [q for q in qs if q.name in chosen]
        mod.META = dict(mod.META, bounds=mod.META["bounds"] + f" [thorough tier as registered: {len(qs)} of the {population} generated shapes -- all shapes of the quick tier plus an "
                        f"evenly strided, fixed sample of the others; VERIF_THOROUGH_MAX=<n> widens it]")
    # prelude + shared repo TUs first (parallel)
    if not build_prelude(bcdir):
        return 3
    srcs = sorted(set(s for q in qs for s in q.sources))
    with cf.ThreadPoolExecutor(NJOBS) as ex:
        noopt_all = all(q.noopt for q in qs) and bool(qs)
        for s, (b, err) in zip(srcs, ex.map(lambda s: compile_source_bc(s, bcdir, noopt_all), srcs)):
            if b is None:
                print(f"ERROR property={pid} cannot compile {s} from the working tree:\n{err}")
                write_evidence(pid, mod, tier, seed, [], time.time() - t0, error=f"compile of {s} failed")
                return 3
    kn = load_known()
    # translator validation runs on a seeded sample of the queries (all of them when there are few)
    rnd = random.Random(seed)
    nval = 4 if tier == "quick" else 16
    for q in (qs if len(qs) <= nval else rnd.sample(qs, nval)):
        q.validate = True

    def known(q, label):
        return any(p == pid and rx.match(q.name) and lab == label for p, rx, lab, _ in kn)
    results = []
    with cf.ThreadPoolExecutor(NJOBS) as ex:
        futs = {ex.submit(run_query, q, os.path.join(work, re.sub(r"[^A-Za-z0-9_.-]", "_", q.name)), bcdir, tier, seed, known): q
                for q in qs}
        for f in cf.as_completed(futs):
            q = futs[f]
            try:
                r = f.result()
            except Exception as ex_:
                r = Result(q)
                r.status, r.detail = "error", f"driver exception: {ex_!r}"
            results.append(r)
            if os.environ.get("VERIF_VERBOSE"):
                print(f"  [{r.status}] {q.name} build={r.build_s:.1f}s solve={r.solver_s:.1f}s rss={r.rss_kb//1024}MB {r.detail[:300]}", flush=True)
    results.sort(key=lambda r: [q.name for q in qs].index(r.q.name))
    wall = time.time() - t0
    code = 0
    nviol = 0
    printed_known = set()
    for r in results:
        if r.status == "violation":
            nviol += 1
            print(f"VIOLATION property={pid} replay={r.replay_file}")
            print(f"  query={r.q.name} failed: {r.detail}")
            code = 1
        elif r.status == "known":
            for d, _ in r.confirmed:
                ent = [e for e in kn if e[0] == pid and e[1].match(r.q.name) and e[2] == d]
                key = (ent[0][2], ent[0][3]) if ent else (d, "")
                if key not in printed_known:
                    printed_known.add(key)
                    print(f"KNOWN-FINDING: property={pid} {key[1]} [query={r.q.name} label=\"{d}\"]")
    for r in results:
        if r.status in ("inconclusive", "bound") and code == 0:
            code = 2
        if r.status in ("inconclusive", "bound"):
            print(f"INCONCLUSIVE property={pid} query={r.q.name} {r.detail}")
    for r in results:
        if r.status in ("error", "vacuous", "unconfirmed"):
            print(f"ERROR property={pid} query={r.q.name} status={r.status}: {r.detail}")
            if code == 0 or code == 2:
                code = 3
    write_evidence(pid, mod, tier, seed, results, wall, nviol=nviol)
    nh = sum(1 for r in results if r.status == "holds")
    print(f"property={pid} tier={tier} queries={len(results)} hold={nh} known={sum(1 for r in results if r.status=='known')} "
          f"violations={nviol} wall={wall:.0f}s solver={sum(r.solver_s for r in results):.0f}s exit={code}")
    # scratch is removed except replay files
    if not os.environ.get("VERIF_KEEP"):
        shutil.rmtree(work, ignore_errors=True)
    return code


def write_evidence(pid, mod, tier, seed, results, wall, nviol=0, error=None):
    meta = getattr(mod, "META", {})
    funcs = sorted(set(f for r in results for f in r.funcs))
    pat = meta.get("functions_filter")
    enc = [f for f in funcs if (re.search(pat, f) if pat else ("simgrid" in f or "xbt" in f or "smpi" in f))]
    enc_d = demangle(enc)
    nontriv = sum(1 for r in results if r.status in ("holds", "known", "violation") and r.witness | (r.status != "holds") and r.nsym >= 1)
    samples = []
    for r in results[:4] + results[-2:]:
        samples.append({"query": r.q.name, "harness": r.q.harness, "entry": r.q.entry, "shape_macros": r.q.defs,
                        "unwind": r.q.unwind, "backend": r.q.backend, "verdict": r.status, "cbmc_properties": r.nprops,
                        "symbolic_input_sites": r.nsym, "solver_s": round(r.solver_s, 2), "witness_reachable": r.witness,
                        "note": r.q.note})
    ev = {
        "property_id": pid, "tier": tier, "seed": seed, "level": "model_checking",
        "coverage": {
            "evaluations": max(len(results), 1) if results else 1,
            "distinct_nontrivial": nontriv,
            "rule": "one evaluation = one solver query (CBMC run over the real functions translated from the IR of /repo's working tree, "
                    "shape macros concrete, numeric inputs symbolic); distinct = distinct (harness, shape) pair; non-trivial = the witness "
                    "twin (assert(false) at the end of the harness) was reported reachable and the formula has >=1 symbolic input site",
            "samples": samples or [{"note": error or "no query ran"}],
            "queries_discharged": sum(1 for r in results if r.status == "holds"),
            "queries_total": len(results),
            "verdicts": {s: sum(1 for r in results if r.status == s) for s in sorted(set(r.status for r in results))},
            "functions_encoded": [{"mangled": m, "demangled": d} for m, d in list(zip(enc, enc_d))[:120]],
            "functions_encoded_count": len(enc),
            "bounds": meta.get("bounds", ""),
            "outside_the_claim": meta.get("outside", ""),
            "stubs": meta.get("stubs", []),
            "solver": sorted(set(r.q.backend for r in results)),
            "solver_time_s": round(sum(r.solver_s for r in results), 1),
            "build_time_s": round(sum(r.build_s for r in results), 1),
            "peak_rss_kb": max([r.rss_kb for r in results] or [0]),
            "cbmc_properties_checked": sum(r.nprops for r in results),
            "unconfirmed": [r.q.name for r in results if r.status == "unconfirmed"],
            "inconclusive": [r.q.name for r in results if r.status in ("inconclusive", "bound")],
            "known_findings_hit": sorted(set(d for r in results if r.status == "known" for d, _ in r.confirmed)),
            "translator_diff_vectors": sum(r.validated_vectors for r in results),
            "cross_solver": {r.q.name: r.cross_status for r in results if r.cross_status},
            "exhaustive": False,
        },
        "assumptions": meta.get("assumptions", []) + [
            "trusted: clang-14 front end and -O1 IR, opt-14 normalisation passes, ll2c (validated per run against the clang-compiled IR), "
            "CBMC 6.11 and its back ends, the cxxrt models of libstdc++ out-of-line helpers",
            "allocation failure is out of scope (--no-malloc-may-fail); static initialisers are not run unless the query says keep_ctors",
        ],
        "wall_s": round(wall, 1),
        "violations": nviol,
    }
    if error:
        ev["coverage"]["error"] = error
    os.makedirs(os.path.join(VERIF, "evidence"), exist_ok=True)
    json.dump(ev, open(os.path.join(VERIF, "evidence", f"{pid}.json"), "w"), indent=1)


def replay(pid, mod, path):
    rp = json.load(open(path))
    q = Query(rp["query"], rp["harness"], rp["entry"], rp["defs"], rp["sources"], keep_ctors=rp.get("keep_ctors", False), prelude=rp.get("prelude", []), noopt=rp.get("noopt", False))
    work = os.path.join(VERIF, ".work", pid + "_replay")
    shutil.rmtree(work, ignore_errors=True)
    bcdir = os.path.join(work, "bc")
    os.makedirs(bcdir)
    build_prelude(bcdir)
    cfile, err = build_query(q, os.path.join(work, "q"), bcdir)
    if cfile is None:
        print("build failed: " + err)
        return 3
    exe, e = native_ir_binary(q, os.path.join(work, "q"))
    if exe is None:
        print("native build failed: " + e)
        return 3
    lines = run_native(exe, [int(x, 16) for x in rp["inputs"]], os.path.join(work, "q"), "replay")
    print("\n".join(lines))
    hit = any(l == "A FAIL " + rp["label"] for l in lines)
    shutil.rmtree(work, ignore_errors=True)
    if hit:
        print(f"VIOLATION property={pid} replay={path}")
        return 1
    print("replay: the recorded assertion does not fail on the current tree")
    return 0
