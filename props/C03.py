from vf import Query

SRC = ["src/kernel/EngineImpl.cpp", "src/kernel/resource/Model.cpp"]
META = {
    "level_text": "Bounded symbolic execution of the real EngineImpl::solve() with 1..2 models and the profile event set replaced by symbolic sources under their contracts; "
                  "floating point is decided by bit-blasting (comparisons, one subtraction, one addition, min/max). Timers, sleeps and kill times are engine-level and outside.",
    "bounds": "1..2 models answering any delay in [0,1e15] or -1, clock any double in [0,1e15], next profile date -1 or any date >= now, horizon -1 or any date >= now; "
              "no profile event is actually due (pop_leq returns none); unwind 6",
    "outside": "Timer::execute_all (Fibonacci heap of timers), CpuCas01::sleep clamping (needs the CPU model objects), kill times, activities' start/finish ordering, "
               "non-idempotent (ns-3) models, profile events applied during the step (see C22)",
    "stubs": ["resource::Model subclass with symbolic next_occurring_event and recording update_actions_state", "FutureEvtSet::next_date -> symbolic, pop_leq -> none",
              "xbt logging -> silent", "abort() = violation", "std::string = 'nostring' model"],
    "assumptions": ["contracts of the stubs: delays are >= 0 or -1; profile dates and the horizon are not in the past"],
    "functions_filter": r"EngineImpl",
}


def queries(tier):
    return [Query(f"solve_models{n}", "C03/solve.cpp", "harness_solve", dict(P_NM=n), SRC, unwind=6, cap_s=900, mem_gb=12, backend="kissat",
                  prelude=["rbtree", "nostring"], no_pointer_overflow=True) for n in (1, 2)]
