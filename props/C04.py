from vf import Query

SRC = ["src/kernel/activity/MutexImpl.cpp", "src/kernel/activity/ActivityImpl.cpp"]
OPS = {0: "lock", 1: "lock_async", 2: "try_lock", 3: "unlock"}
THOROUGH_MAX = 150  # all quick shapes + a fixed strided sample of the other thorough shapes (lib/vf.py)
META = {
    "bounds": "shapes: recursive in {0,1} x owner in {none, A0} x queued acquisitions 0..3 (quick: 0..1), each blocked in wait_for or only "
              "lock_async-ed x issuer in {owner, k-th non-blocked waiter, outsider} x op in {lock=lock_async+wait_for, lock_async, try_lock, unlock}; "
              "symbolic: acquisition count of the mutex and of every queued acquisition in 1..2*10^9 (any int when the mutex is free); unwind 6",
    "outside": "sthread/pthread front end, model-checker interleavings, the s4u simcall layer, destruction of a locked mutex",
    "stubs": ["ActorImpl::simcall_answer (counts answers per actor)", "s4u::Host::is_on -> true", "ActorImpl::set_wannadie", "ObjectAccessSimcallItem ctor",
              "MC_is_active -> 0", "xbt logging -> silent", "abort() = violation unless the shape is 'unlock by a non-owner', where it is the specified outcome"],
    "assumptions": ["representation invariant: free mutex has an empty queue; queue holds distinct actors different from the owner, none granted; counts >= 1"],
    "functions_filter": r"Mutex|Activity",
}


def queries(tier):
    qs = []
    maxq = 1 if tier == "quick" else 3
    for rec in (0, 1):
        for own in (0, 1):
            for nq in range(0, (maxq if own else 0) + 1):
                for blk in range(0, 1 << nq):
                    for iss in range(0, nq + 2 if own else 1):
                        if 1 <= iss <= nq and (blk >> (iss - 1)) & 1:
                            continue  # a blocked actor cannot issue a simcall
                        for op in OPS:
                            if tier == "quick" and op == 1 and nq > 0:
                                continue  # (lock = lock_async + wait_for covers it; lock_async alone on queued shapes is in the thorough tier)
                            qs.append(Query(f"mutex_rec{rec}_own{own}_q{nq}_blk{blk}_iss{iss}_{OPS[op]}", "C04/mutex_step.cpp", "harness_mutex_step",
                                            dict(P_REC=rec, P_OWN=own, P_Q=nq, P_BLK=blk, P_ISS=iss, P_OP=op), SRC, unwind=6, cap_s=120))
    return qs
