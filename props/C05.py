from vf import Query

SRC = ["src/kernel/activity/SemaphoreImpl.cpp", "src/kernel/activity/ActivityImpl.cpp", "src/kernel/actor/SynchroObserver.cpp", "src/kernel/actor/SimcallObserver.cpp"]
THOROUGH_MAX = 50  # all quick shapes + a fixed strided sample of the other thorough shapes (lib/vf.py)
META = {
    "bounds": "queued acquirers 0..3 (quick: 0..2), each blocked in wait_for or only acquire_async-ed, with or without a timeout action; free tokens symbolic over "
              "the full unsigned range (0 when somebody waits; < 2^32-1 for release); ops: acquire_async(+wait_for), release, timeout of the k-th waiter; unwind 8",
    "outside": "the sleep action itself (CpuImpl::sleep) and its date, the s4u layer, model-checker interleavings, release on a semaphore holding 2^32-1 tokens",
    "stubs": ["ActorImpl::simcall_answer (logs answers)", "resource::Action::get_state / unref on a harness-owned action", "s4u::Host::is_on -> true", "MC_is_active -> 0",
              "xbt logging -> silent", "abort() = violation", "std::string = real libstdc++ code instantiated in the prelude", "__dynamic_cast = cxxrt model"],
    "assumptions": ["invariant: free tokens > 0 implies empty queue; queued acquisitions are not granted"],
    "functions_filter": r"Sem|Activity",
}


def queries(tier):
    qs = []
    mq = 2 if tier == "quick" else 3
    def q(name, defs):
        qs.append(Query(name, "C05/sem.cpp", "harness_sem", defs, SRC, unwind=8, cap_s=300, prelude=["rbtree", "nostring"]))
    for nq in range(0, mq + 1):
        for blk in range(0, 1 << nq):
            for w in (0, 1):
                q(f"acquire_q{nq}_blk{blk}_wait{w}", dict(P_Q=nq, P_BLK=blk, P_OP=0, P_WAIT=w))
            q(f"release_q{nq}_blk{blk}", dict(P_Q=nq, P_BLK=blk, P_OP=1))
            if nq and blk & 1:
                q(f"release_timed_q{nq}_blk{blk}", dict(P_Q=nq, P_BLK=blk, P_TMO=1, P_OP=4))
            for k in range(nq):
                if (blk >> k) & 1:
                    q(f"timeout_q{nq}_blk{blk}_k{k}", dict(P_Q=nq, P_BLK=blk, P_TMO=1 << k, P_K=k, P_OP=2))
    return qs
