from vf import Query

SRC = ["src/kernel/activity/ConditionVariableImpl.cpp", "src/kernel/activity/MutexImpl.cpp", "src/kernel/activity/ActivityImpl.cpp",
       "src/kernel/actor/SynchroObserver.cpp", "src/kernel/actor/SimcallObserver.cpp"]
THOROUGH_MAX = 80  # all quick shapes + a fixed strided sample of the other thorough shapes (lib/vf.py)
META = {
    "bounds": "waiters 0..3 (quick: 0..2) blocked in a single-simcall wait, each with or without a timeout action whose state (started/finished) is symbolic when the "
              "notification arrives; mutex free or held by another actor with 0..1 queued lockers; ops: notify_one, notify_all, timeout of the k-th waiter, wait by the mutex owner, and the model-checker split of wait (notified / not notified between its two simcalls, with / without timeout); unwind 8",
    "outside": "the sleep action itself and its date, the s4u layer, recursive mutexes, std::string names (not tracked)",
    "stubs": ["ActorImpl::simcall_answer (logs answers)", "resource::Action::get_state / unref on a harness-owned action", "s4u::Host::is_on -> true", "MC_is_active -> 0",
              "xbt logging -> silent", "abort() = violation", "std::string = 'nostring' model (contents not tracked)", "__dynamic_cast = cxxrt model"],
    "assumptions": ["pre-states are built by the real lock/wait calls; little numeric content: the check is mostly over shapes, the symbolic inputs are the timeout-action states"],
    "functions_filter": r"Condition|Mutex|Activity",
}


def queries(tier):
    qs = []
    mq = 2 if tier == "quick" else 3
    def q(name, defs):
        qs.append(Query(name, "C06/condvar.cpp", "harness_condvar", defs, SRC, unwind=8, cap_s=300, prelude=["rbtree", "nostring"]))
    for nq in range(0, mq + 1):
        for mown, mqn in (((0, 0), (1, 1)) if tier == "quick" else ((0, 0), (1, 0), (1, 1))):
            tmos = [0] if nq == 0 else ([0, (1 << nq) - 1] if tier == "quick" else list(range(1 << nq)))
            for tmo in sorted(set(tmos)):
                q(f"signal_q{nq}_tmo{tmo}_mown{mown}_mq{mqn}", dict(P_Q=nq, P_TMO=tmo, P_MOWN=mown, P_MQ=mqn, P_OP=0))
                q(f"broadcast_q{nq}_tmo{tmo}_mown{mown}_mq{mqn}", dict(P_Q=nq, P_TMO=tmo, P_MOWN=mown, P_MQ=mqn, P_OP=1))
            for k in range(nq):
                q(f"timeout_q{nq}_k{k}_mown{mown}_mq{mqn}", dict(P_Q=nq, P_TMO=1 << k, P_K=k, P_MOWN=mown, P_MQ=mqn, P_OP=2))
            if mown:
                q(f"wait_q{nq}_mq{mqn}", dict(P_Q=nq, P_MOWN=1, P_MQ=mqn, P_OP=3))
                if nq <= 1:
                    for t in (0, 1):
                        q(f"mcwait_notified_q{nq}_mq{mqn}_tmo{t}", dict(P_Q=nq, P_MOWN=1, P_MQ=mqn, P_OP=4, P_TMO_NEW=t))
                        q(f"mcwait_alone_q{nq}_mq{mqn}_tmo{t}", dict(P_Q=nq, P_MOWN=1, P_MQ=mqn, P_OP=5, P_TMO_NEW=t))
    return qs
