from vf import Query

SRC = ["src/kernel/activity/BarrierImpl.cpp", "src/kernel/activity/ActivityImpl.cpp"]
THOROUGH_MAX = 40  # all quick shapes + a fixed strided sample of the other thorough shapes (lib/vf.py)
META = {
    "bounds": "queued waiters 0..4 (quick: 0..2), each blocked in wait_for or only acquire_async-ed (all patterns), arrival with or without wait_for; second use of a barrier (concrete size 2..3) that already released one complete group, built with the real constructor and calls only; "
              "barrier size symbolic over the full unsigned range above the number of waiters; unwind 8",
    "outside": "s4u layer, model-checker interleavings, barriers of size 0",
    "stubs": ["ActorImpl::simcall_answer (logs the order of answers)", "s4u::Host::is_on -> true", "MC_is_active -> 0", "xbt logging -> silent", "abort() = violation"],
    "assumptions": ["invariant: number of queued acquisitions < barrier size, none granted"],
    "functions_filter": r"Barrier|Activity",
}


def queries(tier):
    qs = []
    mq = 2 if tier == "quick" else 4
    for nq in range(0, mq + 1):
        for blk in range(0, 1 << nq):
            for w in (0, 1):
                qs.append(Query(f"barrier_q{nq}_blk{blk}_wait{w}", "C07/barrier.cpp", "harness_barrier", dict(P_Q=nq, P_BLK=blk, P_WAIT=w), SRC, unwind=8, cap_s=300))
    # second use of a barrier that already released one group, built with the real constructor and calls only (no field is set by the harness)
    for nq in range(0, 3):
        for more in (0, 1):
            if nq + 1 + more < 2 or 2 * (nq + 1 + more) > 6:
                continue
            qs.append(Query(f"barrier_second_use_q{nq}_more{more}", "C07/barrier.cpp", "harness_barrier", dict(P_Q=nq, P_BLK=0, P_WAIT=1, P_ROUND2=1, P_MORE=more), SRC,
                            unwind=8, cap_s=300))
    return qs
