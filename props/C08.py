from vf import Query

SRC = ["src/kernel/activity/MailboxImpl.cpp", "src/kernel/activity/CommImpl.cpp", "src/kernel/activity/ActivityImpl.cpp"]
THOROUGH_MAX = 70  # all quick shapes + a fixed strided sample of the other thorough shapes (lib/vf.py)
META = {
    "bounds": "mailbox queue (pending or done queue) of 1..3 comms (quick: <=2), fully symbolic search (types, tags, filters, wanted type: decided path by path, one queued comm) and, for longer queues, position of the first comm of the wanted type fixed per query (comms before it have the other type, or the right type with an own filter that refuses the searcher; searcher with or without a filter object), type/tag/filter of "
              "the comms behind it symbolic, searcher's tag symbolic; with removal; remove() of the k-th comm; "
              "copy_data: payload of 8 symbolic bytes, sizes 0..8 symbolic, missing source / missing size pointer / already-copied flags symbolic; unwind 10",
    "outside": "CommImpl::isend/irecv pairing through the engine, rates and network actions, detached clean-up, permanent-receiver bookkeeping (set_receiver), the s4u layer",
    "stubs": ["xbt logging -> silent", "abort() = violation", "std::string = 'nostring' model", "copy function = harness memcpy recorder"],
    "assumptions": ["queued comms are in state WAITING as created by 'new CommImpl' + push"],
    "functions_filter": r"Mailbox|CommImpl",
}


def queries(tier):
    qs = []
    mq = 2 if tier == "quick" else 3
    def q(name, defs, **kw):
        qs.append(Query(name, "C08/mailbox.cpp", "harness_mailbox", defs, SRC, unwind=10, cap_s=kw.pop("cap_s", 900), mem_gb=12, prelude=["rbtree", "nostring"], **kw))
    for n in range(1, mq + 1):
        for done in (0, 1):
            # fully symbolic search (type, tag and own filter of every queued comm, wanted type, tag and filter of the searcher): path-by-path exploration
            # (one queued comm only: with two or three, path by path, no verdict in 900 s when the tier runs 10 queries in parallel -- measured)
            if n == 1:
                q(f"find_symbolic_q{n}_done{done}", dict(P_MODE=0, P_Q=n, P_REMOVE=0, P_DONE=done), paths=True)
                q(f"find_remove_symbolic_q{n}_done{done}", dict(P_MODE=0, P_Q=n, P_REMOVE=1, P_DONE=done), paths=True)
            # (in merge mode the fully symbolic search does not finish: the matched pointer becomes symbolic and every later release explores ~CommImpl)
            for exp in range(n):
                for want in (0, 1):
                    for rej in range(1 << exp):
                        for nullf in (0, 1):
                            if tier == "quick" and (done and (rej or nullf)):
                                continue
                            q(f"find_remove_q{n}_at{exp}_want{want}_done{done}_rej{rej}_nullf{nullf}",
                              dict(P_MODE=0, P_Q=n, P_REMOVE=1, P_DONE=done, P_EXP=exp, P_WANT=want, P_REJ=rej, P_NULLF=nullf))
        for k in range(n):
            q(f"remove_q{n}_k{k}", dict(P_MODE=2, P_Q=n, P_K=k))
    q("copy_data", dict(P_MODE=1), nin=96)
    return qs
