from vf import Query

SRC = ["src/kernel/activity/MessageQueueImpl.cpp", "src/kernel/activity/MessImpl.cpp", "src/kernel/activity/ActivityImpl.cpp"]
META = {
    "bounds": "queue of 1..4 messages (quick: <=3); position of the first message of the wanted kind fixed per query (or none), kind of the messages behind it and all "
              "payload values symbolic; find_matching_message for both kinds; remove() of the k-th message; unwind 10",
    "outside": "MessImpl::iput/iget pairing through the engine (start/finish of the activity), detached puts, the s4u layer",
    "stubs": ["xbt logging -> silent", "abort() = violation", "std::string = 'nostring' model"],
    "assumptions": ["queued messages are in state WAITING as created by 'new MessImpl' + push"],
    "functions_filter": r"MessageQueue|MessImpl",
}


def queries(tier):
    qs = []
    mq = 3 if tier == "quick" else 4
    def q(name, defs):
        qs.append(Query(name, "C09/mq.cpp", "harness_mq", defs, SRC, unwind=10, cap_s=600, mem_gb=12, prelude=["rbtree", "nostring"]))
    for n in range(1, mq + 1):
        for want in (0, 1):
            for exp in range(-1, n):
                q(f"find_q{n}_at{exp if exp >= 0 else 'none'}_want{want}", dict(P_MODE=0, P_Q=n, P_EXP=exp, P_WANT=want))
        for k in range(n):
            q(f"remove_q{n}_k{k}", dict(P_MODE=1, P_Q=n, P_K=k))
    return qs
