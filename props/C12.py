from vf import Query

SRC = ["src/kernel/activity/ActivityImpl.cpp", "src/kernel/actor/WaitTestObserver.cpp", "src/kernel/actor/SimcallObserver.cpp"]
META = {
    "level_text": "Bounded symbolic execution of the real ActivityImpl::wait_for / wait_any_for and of the timeout callbacks they create (captured through a Timer::set stub and "
                  "fired by the harness): deadline = clock + timeout exactly, a completion at the deadline is not a timeout, otherwise the timeout is raised exactly once.",
    "bounds": "deadline exactness: clock and timeout any double in [0,1e15] (timer not fired); firing: concrete dates, the model action is in any of its 6 states when the deadline fires (present when the wait is armed, arriving later, or never); activity sets of 1..3 activities; the activity "
              "class is a harness subclass of ActivityImpl_T whose finish() releases its waiters (what every real finish() does last); unwind 8",
    "outside": "wait_for_or_cancel and ActivitySet (s4u compositions), the date at which the engine fires the timer (Timer::execute_all), the finish() of each concrete "
               "activity kind (exceptions built per state), the model checker path (no timeouts there)",
    "stubs": ["timer::Timer::set -> records date and callback", "s4u::Engine::get_clock -> symbolic", "resource::Action::get_state on a harness-owned action",
              "ActorImpl::simcall_answer (counts)", "xbt logging -> silent", "abort() = violation", "std::string = 'nostring' model", "__dynamic_cast = cxxrt model"],
    "assumptions": [],
    "functions_filter": r"Activity",
}


def queries(tier):
    qs = []
    def q(name, defs):
        qs.append(Query(name, "C12/timedwait.cpp", "harness_timedwait", defs, SRC, unwind=8, cap_s=900, mem_gb=12, prelude=["rbtree", "nostring"], no_pointer_overflow=True,
                        paths="deadline" in name))
    q("wait_for_deadline", dict(P_MODE=0))
    q("wait_for_deadline_started_later", dict(P_MODE=0, P_LATE=1))
    q("wait_for_deadline_never_started", dict(P_MODE=0, P_LATE=2))
    q("wait_for_date_exact", dict(P_MODE=0, P_SYMTIME=1))
    q("wait_any_for_date_exact", dict(P_MODE=2, P_N=2, P_SYMTIME=1))
    q("wait_for_already_done", dict(P_MODE=1))
    for n in (1, 2, 3):
        q(f"wait_any_for_deadline_n{n}", dict(P_MODE=2, P_N=n))
        for k in range(n):
            q(f"wait_any_for_done_n{n}_k{k}", dict(P_MODE=3, P_N=n, P_K=k))
    return qs
