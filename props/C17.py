from vf import Query

SRC = ["src/kernel/lmm/System.cpp", "src/kernel/lmm/maxmin.cpp"]
THOROUGH_MAX = 45  # all quick shapes + a fixed strided sample of the other thorough shapes (lib/vf.py)
META = {
    "level_text": "Bounded symbolic execution of the real modified-set propagation (System::update_modified_cnst_set[_rec], remove_all_modified_cnst_set) on a fixed "
                  "3-constraint chain, for every value of the visit counter and of the per-variable stamps. Only the structural half of the property (which resources "
                  "are re-solved) is decided; equality of the computed rates needs the solver on symbolic doubles, which no back end decides (see C15/C16).",
    "bounds": "chain of 3 constraints and 3 variables, every subset of disabled variables, every start constraint; real modifications (suspend, penalty, bound, free) of each variable; visit counter symbolic over 1..2^32-1 (wrap included), "
              "per-variable stamps symbolic below the counter; unwind 8",
    "outside": "the numeric half (rates equal to a from-scratch solve), larger graphs, histories (induction over the stamps only)",
    "stubs": ["xbt mallocator -> plain new/free", "xbt logging -> silent", "abort() = violation"],
    "assumptions": ["stamps left by earlier rounds are strictly below the current counter (true since the last wrap-around reset)"],
    "functions_filter": r"lmm",
}


def queries(tier):
    qs = []
    for dis in range(0, 8):
        for start in (0, 1, 2):
            if tier == "quick" and dis in (3, 5, 6, 7) and start != 0:
                continue
            qs.append(Query(f"propagate_dis{dis:03b}_from{start}", "C17/selective.cpp", "harness_selective", dict(P_MODE=0, P_DIS=dis, P_START=start), SRC,
                            unwind=8, cap_s=600, mem_gb=12, no_pointer_overflow=True))
    for var in (0, 1, 2):
        for chg, cname in enumerate(("suspend", "penalty", "bound", "free")):
            for dis in ((0,) if tier == "quick" else (0, 1, 2, 4)):
                if (dis >> var) & 1:
                    continue
                qs.append(Query(f"change_{cname}_v{var}_dis{dis:03b}", "C17/selective.cpp", "harness_selective", dict(P_MODE=2, P_DIS=dis, P_VAR=var, P_CHG=chg), SRC,
                                unwind=8, cap_s=600, mem_gb=12, no_pointer_overflow=True, paths=True))
    for dis in (0, 2, 7):
        qs.append(Query(f"rearm_after_solve_dis{dis:03b}", "C17/selective.cpp", "harness_selective", dict(P_MODE=1, P_DIS=dis, P_START=0), SRC, unwind=8, cap_s=600,
                        mem_gb=12, no_pointer_overflow=True))
    return qs
