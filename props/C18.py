from vf import Query

SRC = ["src/kernel/lmm/System.cpp", "src/kernel/lmm/maxmin.cpp"]
OPS = ["built", "free_v0", "disable_v1", "repenalize_v1", "enable_v2", "free_v2"]
META = {
    "bounds": "system of 2 constraints and 3 variables (v0 on c0, v1 on c0 and c1, v2 on c1), consumption weights 1 (and a second system with two limited resources where two activities are staged behind two running ones); set-ups: no limit during the build / c0 limited to 1 "
              "(v1 staged) / v2 created disabled; afterwards concurrency limits symbolic in {-1 (unlimited), current use..4}; one modification per query (variable_free, "
              "disable, penalty change, enable); oracle = the conditions of System::check_concurrency plus the no-starvation condition; unwind 8",
    "outside": "larger systems and histories (covered only through the induction over limits), expand of a new variable on two constraints (two mutations: needs path "
               "exploration, measured 82 s), the solver itself (C15/C16 are not applicable), cross-traffic elements with weight < 1",
    "stubs": ["xbt mallocator -> plain new/free", "xbt logging -> silent", "abort() = violation"],
    "assumptions": ["limits are at least the current number of enabled activities (invariant), weights are 1"],
    "functions_filter": r"lmm",
}


def queries(tier):
    qs = []
    for setup in (0, 1, 2):
        for op, name in enumerate(OPS):
            if op == 4 and setup != 2:
                continue
            heavy = setup == 1 and op == 1  # free + re-enable of the staged variable = several mutations after a symbolic branch: 40 GB are not enough in
            # merge mode, path-by-path exploration (--paths lifo) decides it in seconds
            qs.append(Query(f"setup{setup}_{name}", "C18/conc.cpp", "harness_conc", dict(P_SETUP=setup, P_OP=op), SRC, unwind=8, cap_s=900,
                            mem_gb=12, no_pointer_overflow=True, paths=heavy))
    for op, name in ((1, "free_x0"), (2, "disable_x0"), (5, "free_y"), (0, "built")):
        heavy = op in (1, 2)  # release of a slot followed by the wake-up scan: several mutations after symbolic branches -> path-by-path exploration
        qs.append(Query(f"setup3_{name}", "C18/conc.cpp", "harness_conc", dict(P_SETUP=3, P_OP=op), SRC, unwind=8, cap_s=900, mem_gb=16, no_pointer_overflow=True,
                        paths=heavy))
    return qs
