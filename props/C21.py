from vf import Query

SRC = ["src/kernel/resource/Action.cpp"]
META = {
    "bounds": "one call of Action::update_remains / update_max_duration: remaining amount and progress any finite non-negative double, timing precision any double in [1e-300,1], work-amount precision in {1, 0.5, 2^-10} (powers of two: the product with the symbolic timing precision stays tractable; the default 1e-5 is not decided) (update_remains) or any double in (0,1] (update_max_duration); "
              "floating point is decided by bit-blasting (one subtraction, one multiplication of the two precisions, comparisons); unwind 4",
    "outside": "rates coming from the sharing solver (C15: not applicable), capacity over time, multi-core speed-up, the lazy update (needs model and action sets), "
               "the moment finish() is called by the models' update loops",
    "stubs": ["xbt logging -> silent", "abort() = violation"],
    "assumptions": ["remains and delta are finite and non-negative (what the models pass)"],
    "functions_filter": r"Action|double_update",
}


def queries(tier):
    # (k=3, the default work-amount precision 1e-5, is not a power of two: no back end decides the product with the symbolic timing precision within 200 s)
    qs = [Query(f"update_remains_pw{k}", "C21/update.cpp", "harness_update", dict(P_MODE=0, P_PW=k), SRC, unwind=4, cap_s=600, backend="kissat", no_pointer_overflow=True)
          for k in range(3)]
    qs.append(Query("update_max_duration", "C21/update.cpp", "harness_update", dict(P_MODE=1), SRC, unwind=4, cap_s=600, backend="kissat", no_pointer_overflow=True))
    return qs
