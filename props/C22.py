from vf import Query

SRC = ["src/kernel/resource/profile/Profile.cpp", "src/kernel/resource/profile/FutureEvtSet.cpp", "src/kernel/resource/profile/StochasticDatedValue.cpp"]
META = {
    "level_text": "Bounded symbolic execution of the real profile event kernel, one step at a time: Profile::schedule/next/get_enough_events, the periodic repetition of "
                  "LegacyUpdateCb (ProfileBuilder.cpp, included), FutureEvtSet::add_event/next_date/pop_leq over its binary heap; dates, values, loop delays and the "
                  "pop date are symbolic doubles. The state after k deliveries is built directly (event index k pending at an arbitrary date), so one step covers "
                  "every history leading to it. Application to hosts/links and the integration of progress need whole runs: outside.",
    "bounds": "patterns of 1..3 points, event index 0..2*n (two periods: inside a period, at the wrap, after a wrap), periodic and one-shot; point deltas / values / loop "
              "delay / pending date any double in [0,1e12], pop date any double in [0,2e12]; one event pending at a time; unwind 10",
    "outside": "parsing of profile text (strings), stochastic laws, how resources apply the events (speed/bandwidth/state changes) and how running activities integrate "
               "the piecewise-constant availability, events at date 0 handled at platform creation, several events pending together on one event set (heap order across resources: which profile pop_leq advances is then symbolic and its refill makes every size symbolic: 11 GB, no verdict); several consecutive pops in "
               "one query (the early return of pop_leq, merged back, makes all container sizes symbolic: measured, no verdict in 300 s)",
    "stubs": ["Profile object built field by field (its constructor registers the name in a string-keyed map)", "resource pointers are opaque tags", "xbt logging -> silent",
              "abort() = violation", "std::string = 'nostring' model"],
    "assumptions": ["deterministic (DET) laws; dates in the pattern are stored as differences, as the builder does",
                    "the state after k deliveries is: event->idx = k, get_enough_events(k) called, the event pending at an arbitrary date T"],
    "functions_filter": r"profile|Profile|FutureEvtSet",
}


def queries(tier):
    qs = []
    kw = dict(unwind=14, cap_s=600, mem_gb=12, backend="cadical", ll2c_cap=16, memcap=16, prelude=["rbtree", "nostring"], no_pointer_overflow=True)
    for n in (1, 2, 3):
        for loop in (1, 0):
            if tier == "quick" and n == 3:
                continue
            qs.append(Query(f"schedule_n{n}_loop{loop}", "C22/profile.cpp", "harness_profile", dict(P_MODE=2, P_N=n, P_LOOP=loop), SRC, **kw))
            for idx in range(0, 2 * n + 1 if loop else n):
                if tier == "quick" and idx > n:
                    continue
                qs.append(Query(f"step_n{n}_loop{loop}_idx{idx}", "C22/profile.cpp", "harness_profile", dict(P_MODE=0, P_N=n, P_LOOP=loop, P_IDX=idx), SRC, **kw))
    # (P_MODE 1 of the harness -- several events pending together, the one pop_leq advances being symbolic -- gives no verdict: 11 GB / 600 s in path mode; not claimed)
    return qs
