from vf import Query

SRC = ["src/kernel/resource/profile/Profile.cpp", "src/kernel/resource/profile/FutureEvtSet.cpp", "src/kernel/resource/profile/StochasticDatedValue.cpp"]
META = {
    "level_text": "Bounded symbolic execution of the real profile event kernel: Profile::schedule/next, the periodic repetition of LegacyUpdateCb (ProfileBuilder.cpp, included), "
                  "FutureEvtSet::add_event/next_date/pop_leq over its binary heap; dates, values and periods are symbolic doubles (additions and comparisons only, expected "
                  "dates built with the same operations in the same order). Application to hosts/links and the integration of progress need whole runs: outside.",
    "bounds": "one periodic profile of 1..3 points observed over 5..7 events (2 periods), point deltas / values / loop delay any double in [0,1e12]; two one-point periodic "
              "profiles on one event set over 4 events (path by path); unwind 10",
    "outside": "parsing of profile text (strings), stochastic profiles, how resources apply the events (speed/bandwidth/state changes) and how running activities integrate "
               "the piecewise-constant availability, events at date 0 handled at platform creation",
    "stubs": ["Profile object built field by field (its constructor registers the name in a string-keyed map)", "resource pointers are opaque tags", "xbt logging -> silent",
              "abort() = violation", "std::string = 'nostring' model"],
    "assumptions": ["deterministic (DET) laws; dates in the pattern are stored as differences, as the builder does"],
    "functions_filter": r"profile|Profile|FutureEvtSet",
}


def queries(tier):
    qs = []
    for n, pops in ((1, 4), (2, 5), (3, 7)):
        if tier == "quick" and n == 3:
            continue
        qs.append(Query(f"periodic_n{n}", "C22/profile.cpp", "harness_profile", dict(P_MODE=0, P_N=n, P_POPS=pops), SRC, unwind=10, cap_s=900, mem_gb=12,
                        prelude=["rbtree", "nostring"], no_pointer_overflow=True, backend="kissat"))
    qs.append(Query("two_profiles", "C22/profile.cpp", "harness_profile", dict(P_MODE=1, P_POPS=3 if tier == "quick" else 4), SRC, unwind=10, cap_s=1200, mem_gb=12,
                    prelude=["rbtree", "nostring"], no_pointer_overflow=True, paths=True))
    return qs
