from vf import Query

SRC = ["src/smpi/mpi/smpi_request.cpp"]
META = {
    "bounds": "one send request and one receive request: communicator ids, sender pid 1..1000, requested source (a pid or MPI_ANY_SOURCE), both tags (any int incl. "
              "MPI_ANY_TAG and negative tags), both sizes (64-bit), probe flags, membership of the sender in the receiver's group, the per-(src,dst,tag) message "
              "counter and the message id all symbolic; match_recv and match_send; unwind 6",
    "outside": "Request::start (choice between the small/large mailboxes around smpi/async-small-thresh, detached sends), the mailbox queue order itself (see C08), "
               "datatype mismatch reporting, whole MPI programs, status fields computed later (count conversions)",
    "stubs": ["Comm::id/group/is_smp_comm", "Group::rank -> symbolic membership of the sender", "Comm::get/increment_received_messages_count -> symbolic counter",
              "xbt logging -> silent", "abort() = violation"],
    "assumptions": ["the sender request carries exactly one message id"],
    "functions_filter": r"Request",
}


def queries(tier):
    return [Query("match_recv", "C28/match.cpp", "harness_match", dict(P_MODE=0), SRC, unwind=6, cap_s=600, prelude=["rbtree", "nostring"], no_pointer_overflow=True),
            Query("match_send", "C28/match.cpp", "harness_match", dict(P_MODE=1), SRC, unwind=6, cap_s=600, prelude=["rbtree", "nostring"], no_pointer_overflow=True)]
