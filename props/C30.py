from vf import Query

SRC = ["src/smpi/mpi/smpi_datatype.cpp", "src/smpi/mpi/smpi_datatype_derived.cpp"]
CTORS = ["contiguous", "vector", "hvector", "indexed", "hindexed", "struct", "resized"]
THOROUGH_MAX = 160  # all quick shapes + a fixed strided sample of the other thorough shapes (lib/vf.py)
META = {
    "bounds": "constructors contiguous/vector/hvector/indexed/hindexed/struct/resized with symbolic counts 0..6, block lengths 1..6, strides 0..64, displacements 0..64, "
              "1..3 blocks (quick: <=2) for indexed/hindexed/struct; old type either predefined-like (extent = size 1..8, lb 0) or derived with symbolic size 1..8, "
              "extent 1..16 and lb 0 (lb 1..8 in the *_lbpos queries); data movement: serialize() of vector/hvector/indexed types over a resized one-byte type, 48 symbolic buffer bytes; unserialize() with MPI_REPLACE of vector/hvector/indexed types over a derived old type with holes (vector of 2 single bytes, stride 1..3), 1..3 blocks of 1..2 elements, packed bytes symbolic, element extent / block length / stride concrete per query (shape); unwind 8",
    "outside": "unserialize of struct/hindexed built directly, operators other than MPI_REPLACE on the receiving side, subarray, indexed_block (PMPI wrapper), negative strides/displacements (excluded by the property), zero block lengths, alignment padding of struct (MPI "
               "epsilon), Pack/Unpack/Sendrecv plumbing and collectives, attribute/contents bookkeeping",
    "stubs": ["F2C::add_f / F2C ctor (Fortran handle table)", "xbt logging -> silent", "abort() = violation", "std::string = 'nostring' model"],
    "assumptions": ["the old type is a plain Datatype object with the given size/lb/ub (its own type map is abstract)"],
    "functions_filter": r"Datatype|Type_",
}


def queries(tier):
    qs = []
    def q(name, defs, **kw):
        qs.append(Query(name, "C30/layout.cpp", "harness_layout", defs, SRC, unwind=8, cap_s=600, mem_gb=12, prelude=["rbtree", "nostring"], no_pointer_overflow=True, **kw))
    maxn = 2 if tier == "quick" else 3
    for c, cname in enumerate(CTORS):
        ns = range(1, maxn + 1) if cname in ("indexed", "hindexed", "struct") else (1,)
        for n in ns:
            for der, lbpos in ((0, 0), (1, 0), (1, 1)):
                if cname == "struct" and n == 1 and der == 0:
                    pass
                nm = f"{cname}" + (f"_n{n}" if len(ns) > 1 else "") + ("_basic" if not der else ("_derived_lb0" if not lbpos else "_derived_lbpos"))
                q(nm, dict(P_CTOR=c, P_N=n, P_DERIVED=der, P_LBPOS=lbpos))
    shapes = [(2, 1, 2), (2, 2, 3), (3, 1, 1)] if tier == "quick" else [(e, b, st) for e in (1, 2, 3) for b in (1, 2) for st in (0, 1, 2, 3)]
    for c, cname in ((1, "vector"), (2, "hvector"), (3, "indexed")):
        for cnt in ((2,) if tier == "quick" else (1, 2, 3)):
            for e, b, st in shapes:
                qs.append(Query(f"serialize_{cname}_count{cnt}_e{e}_b{b}_s{st}", "C30/serialize.cpp", "harness_serialize",
                                dict(P_CTOR=c, P_COUNT=cnt, P_E=e, P_B=b, P_STRIDE=st), SRC, unwind=8, cap_s=600, mem_gb=12,
                                prelude=["rbtree", "nostring"], no_pointer_overflow=True, ll2c_cap=8, memcap=8))
    # several consecutive elements (count 2) of vector / hvector / indexed types, the indexed one with a first displacement of 0 or 1
    for c, cname, first in ((1, "vector", 0), (2, "hvector", 0), (3, "indexed", 0), (3, "indexed", 1), (4, "struct", 0), (4, "struct", 1)):
        for e, b, st in ([(2, 1, 2)] if tier == "quick" else [(1, 1, 2), (2, 1, 2), (2, 1, 3)]):
            qs.append(Query(f"serialize2_{cname}_first{first}_e{e}_b{b}_s{st}", "C30/serialize.cpp", "harness_serialize",
                            dict(P_CTOR=c, P_COUNT=2, P_E=e, P_B=b, P_STRIDE=st, P_CNT=2, P_FIRST=first), SRC, unwind=8, cap_s=600, mem_gb=12,
                            prelude=["rbtree", "nostring"], no_pointer_overflow=True, ll2c_cap=8, memcap=8))
    # receiving side: unserialize with MPI_REPLACE over an old type that is itself derived and has holes (vector of 2 single bytes, stride vs)
    ushapes = [(2, 1, 3), (2, 2, 2)] if tier == "quick" else [(vs, b, st) for vs in (1, 2, 3) for b in (1, 2) for st in (2, 3)]
    for c, cname in ((1, "vector"), (2, "hvector"), (3, "indexed")):
        for cnt in ((2,) if tier == "quick" else (1, 2, 3)):
            for vs, b, st in ushapes:
                if st < b:
                    continue
                qs.append(Query(f"unserialize_{cname}_count{cnt}_vs{vs}_b{b}_s{st}", "C30/unserialize.cpp", "harness_unserialize",
                                dict(P_CTOR=c, P_COUNT=cnt, P_VS=vs, P_B=b, P_STRIDE=st), SRC, unwind=66, cap_s=600, mem_gb=12,
                                prelude=["rbtree", "nostring"], no_pointer_overflow=True, ll2c_cap=8, memcap=8))
    for c, cname, first in ((1, "vector", 0), (2, "hvector", 0), (3, "indexed", 0), (3, "indexed", 1), (4, "struct", 0), (4, "struct", 1)):
        qs.append(Query(f"unserialize2_{cname}_first{first}_vs2_b1_s2", "C30/unserialize.cpp", "harness_unserialize",
                        dict(P_CTOR=c, P_COUNT=2, P_VS=2, P_B=1, P_STRIDE=2, P_CNT=2, P_FIRST=first), SRC, unwind=66, cap_s=600, mem_gb=12,
                        prelude=["rbtree", "nostring"], no_pointer_overflow=True, ll2c_cap=8, memcap=8))
    for q_ in qs:
        if q_.name in ("indexed_n2_derived_lbpos", "indexed_n3_derived_lbpos"):
            q_.tiers = ("thorough",)  # symbolic products of three factors: no verdict in 200 s with the SAT back end
            q_.cap_s = 1800
    return qs
