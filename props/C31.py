from vf import Query

INT_TYPES = [("CHAR", "char"), ("SHORT", "short"), ("INT", "int"), ("LONG", "long"), ("LONG_LONG", "long long"), ("SIGNED_CHAR", "signed char"),
             ("UNSIGNED_CHAR", "unsigned char"), ("UNSIGNED_SHORT", "unsigned short"), ("UNSIGNED", "unsigned int"), ("UNSIGNED_LONG", "unsigned long"),
             ("UNSIGNED_LONG_LONG", "unsigned long long"), ("WCHAR", "wchar_t"), ("INT8_T", "int8_t"), ("INT16_T", "int16_t"), ("INT32_T", "int32_t"),
             ("INT64_T", "int64_t"), ("UINT8_T", "uint8_t"), ("UINT16_T", "uint16_t"), ("UINT32_T", "uint32_t"), ("UINT64_T", "uint64_t"),
             ("AINT", "MPI_Aint"), ("OFFSET", "MPI_Offset"), ("INTEGER1", "int"), ("INTEGER2", "int16_t"), ("INTEGER4", "int32_t"), ("INTEGER8", "int64_t"),
             ("COUNT", "long long")]
QUICK_INT = {"CHAR", "SHORT", "INT", "UNSIGNED_CHAR", "UNSIGNED", "UNSIGNED_LONG", "INT64_T"}
FP_TYPES = [("FLOAT", "float"), ("DOUBLE", "double"), ("REAL", "float"), ("REAL4", "float"), ("REAL8", "double")]
QUICK_FP = {"FLOAT", "DOUBLE"}
PAIR_TYPES = [("FLOAT_INT", "float_int"), ("LONG_INT", "long_int"), ("DOUBLE_INT", "double_int"), ("SHORT_INT", "short_int"), ("2INT", "int_int"),
              ("2FLOAT", "float_float"), ("2DOUBLE", "double_double")]
QUICK_PAIR = {"DOUBLE_INT", "2INT", "SHORT_INT"}
OPS = {"max": 0, "min": 1, "sum": 2, "prod": 3, "land": 4, "lor": 5, "lxor": 6, "band": 7, "bor": 8, "bxor": 9, "maxloc": 10, "minloc": 11, "replace": 12}
THOROUGH_MAX = 220  # all quick shapes + a fixed strided sample of the other thorough shapes (lib/vf.py)
META = {
    "bounds": "every predefined reduction function x datatype branch of smpi_op.cpp (quick: a sample of 7 integer, 2 floating and 3 pair types per operator), vectors of "
              "symbolic length 0..3, all element values symbolic (integers: full width; floating point: any double incl. NaN/inf, compared by value); "
              "PROD of 2 elements on floating point by identical-expression equality (thorough tier, z3); MINLOC/MAXLOC ties; a sample of unsupported pairs must reach xbt_die; unwind 5",
    "outside": "floating-point SUM and floating-point PROD of 3 elements (z3: ~100 s each alone, no verdict in 900 s when the tier runs in parallel; SAT back ends none), Op::apply plumbing (data-segment switch, replay mode, Fortran handles), MPI_Reduce_local/Allreduce, complex and long double types, user-defined operators, "
               "the allowed-types flags of the PMPI layer (static initialisers are not run)",
    "stubs": ["xbt logging -> silent", "abort() = violation, except for the 'unsupported pair' shapes where it is the specified outcome",
              "predefined datatype objects = distinct zero-initialised objects (only their identity is used by the functions)"],
    "assumptions": ["signed integer overflow wraps (the translated IR ignores nsw), as on the real target"],
    "functions_filter": r"_func|Op",
}


def queries(tier):
    qs = []
    def q(fn, opk, dt, ct, kind):
        hard = fn == "prod" or (kind == 1 and fn == "sum")
        if kind == 1 and fn == "sum":
            return  # floating-point SUM: z3 gave a verdict in ~100 s on an idle machine but none in 900 s when the tier runs 10 queries in parallel: not claimed
        for ln in (((2,) if kind == 1 else (2, 3)) if hard else (None,)):  # (floating-point PROD of 3 elements: 635 s under load, too close to the cap)
            defs = {"P_FUNC": fn + "_func", "P_OPK": opk, "P_DT": "smpi_MPI_" + dt, "P_CT": ct, "P_KIND": kind}
            if ln is not None:
                defs["P_LEN"] = ln
            fp_hard = hard and kind == 1  # floating-point SUM/PROD: z3 needs ~100 s per query (measured), SAT back ends give no verdict: thorough tier only
            qs.append(Query(f"{fn}_{dt}" + (f"_len{ln}" if ln else ""), "C31/ops.cpp", "harness_op", defs, [], unwind=5, cap_s=900 if fp_hard else 300,
                            backend="z3" if hard else "minisat", tiers=("thorough",) if fp_hard else ("quick", "thorough")))
    for fn in ("max", "min", "sum", "prod", "land", "lor", "lxor", "band", "bor", "bxor"):
        for dt, ct in INT_TYPES:
            if tier == "quick" and dt not in QUICK_INT:
                continue
            q(fn, OPS[fn], dt, ct, 0)
        for dt, ct in FP_TYPES:
            if tier == "quick" and dt not in QUICK_FP:
                continue
            if fn in ("band", "bor", "bxor"):
                if dt == "DOUBLE":
                    q(fn, OPS[fn], dt, ct, 3)  # bitwise operators on floating point are not defined by MPI: refused
                continue
            q(fn, OPS[fn], dt, ct, 1)
    for fn in ("maxloc", "minloc"):
        for dt, ct in PAIR_TYPES:
            if tier == "quick" and dt not in QUICK_PAIR:
                continue
            q(fn, OPS[fn], dt, ct, 2)
        q(fn, OPS[fn], "INT", "int", 3)  # MINLOC/MAXLOC need a pair type
    return qs
