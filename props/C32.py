from vf import Query

SRC = ["src/smpi/mpi/smpi_group.cpp"]
OPS = ["incl", "excl", "range_incl", "range_excl", "union", "inter", "diff", "compare", "translate"]
META = {
    "bounds": "groups of 1..3 ranks (quick: <=2) over process ids 0..3 (symbolic, distinct inside a group: every overlap pattern and order), rank lists of "
              "1..3 valid distinct ranks, vector capacity 4; unwind 6",
    "outside": "MPI_Group_range_incl / range_excl (measured: not decidable within 28 GB / 400 s), Group::rank's fallback through Actor::by_pid (ranks of actors spawned by a member), Comm::split/dup/create (collectives over the engine), "
               "messages crossing communicators (see C28), argument validation of the PMPI layer (assumed as precondition)",
    "stubs": ["s4u::Actor::by_pid -> nullptr", "F2C::add_f / F2C ctor (Fortran handle table)", "xbt logging -> silent", "abort() = violation"],
    "assumptions": ["rank lists and ranges satisfy what PMPI_Group_* checks before calling (valid ranks, non-zero stride of the right sign) and what MPI requires (distinct ranks)"],
    "functions_filter": r"Group",
}


import os
PATHS = bool(os.environ.get("C32_PATHS"))


def queries(tier):
    qs = []
    QUICK = {"incl_n2_k1", "incl_n2_k2", "excl_n2_k1", "compare_2x2", "translate_2x2", "inter_2x2", "diff_2x2"}
    def q(name, defs, **kw):
        defs = dict(defs, PIDMAX=4)
        heavy = name.startswith(("union", "range")) or name.endswith(("3x2", "2x3"))
        qs.append(Query(name, "C32/group.cpp", "harness_group", defs, SRC, unwind=10 if heavy else 6, cap_s=2400 if heavy else 900, mem_gb=30 if heavy else 12,
                        ll2c_cap=8, memcap=8, tiers=("quick", "thorough") if name in QUICK else ("thorough",), paths=PATHS, **kw))
    for n1 in (1, 2, 3):
        for k in range(1, n1 + 1):
            if n1 == 3 and k > 1:
                continue
            q(f"incl_n{n1}_k{k}", dict(P_N1=n1, P_K=k, P_OP=0))
            if n1 < 3:
                q(f"excl_n{n1}_k{k}", dict(P_N1=n1, P_K=k, P_OP=1))
        # (range_incl / range_excl, harness ops 2 and 3: no verdict - 28 GB exhausted in merge mode, > 200 s path by path - not claimed)
        for n2 in (1, 2, 3):
            if n1 + n2 > 4 and not (n1, n2) in ((3, 2), (2, 3)):
                continue
            for op in (4, 5, 6, 7, 8):
                if (n1, n2) in ((3, 2), (2, 3)) and op not in (7, 8):
                    continue
                q(f"{OPS[op]}_{n1}x{n2}", dict(P_N1=n1, P_N2=n2, P_OP=op))
    return qs
