from vf import Query

SRC = ["src/smpi/mpi/smpi_topo.cpp"]
MODES = {0: "coords_rank", 1: "rank_wrap", 2: "shift", 3: "shift_baddir", 4: "dims_create", 5: "sub"}
META = {
    "bounds": "1..4 dimensions (quick: 1..3; concrete per query), every dimension size symbolic in 1..4 (quick) / 1..6 (thorough) with product <= 64 nodes, periodicity symbolic, "
              "calling rank / rank / coordinates (|c| <= 3*maxdim) / displacement (|disp| <= 2*maxdim) / given Dims_create entries symbolic; unwind 8 (Dims_create: 12)",
    "outside": "Dims_create and Cart_sub (harness modes 4 and 5 exist but no verdict in 900 s in merge mode (std::sort/introsort, vector growth under symbolic factor counts) nor in 200 s path by path (the first path already stalls in the div/mod circuits); measured, see DESIGN.md), creation of the communicators (Comm::split, Comm constructor, groups: engine-level collectives), Cart_sub dropping every dimension, graph topologies",
    "stubs": ["smpi::Comm::rank() -> symbolic rank of the caller", "smpi::Comm::split(color,key) records its arguments", "xbt logging -> silent", "abort() = violation"],
    "assumptions": ["the topology object is the one the real Topo_Cart constructor builds for a process of rank me (comm_cart == nullptr path)"],
    "functions_filter": r"Topo_Cart|assignnodes|getfactors",
}


def queries(tier):
    qs = []
    maxnd = 3 if tier == "quick" else 4
    maxdim = 4 if tier == "quick" else 6
    for nd in range(1, maxnd + 1):
        for mode in (0, 1, 2, 3):
            qs.append(Query(f"{MODES[mode]}_nd{nd}", "C33/cart.cpp", "harness_cart", dict(P_ND=nd, P_MODE=mode, P_MAXDIM=maxdim), SRC, unwind=8,
                            cap_s=900 if tier == "quick" else 3600, mem_gb=16, ll2c_cap=8, memcap=8))
    return qs
