from vf import Query

SRC = ["src/smpi/internals/smpi_shared.cpp"]
META = {
    "bounds": "1..3 private blocks per buffer (quick: <=2; merge and pipeline: up to 3x3 / 2x2), every block bound, offset and message size a symbolic "
              "size_t below 2^62 (blocks sorted, non-overlapping, non-empty); unwind 5; vector capacity 8",
    "outside": "the mmap bookkeeping of smpi_shared_malloc, smpi_is_shared's map lookup, the memcpy loop of smpi_comm_copy_buffer_callback, send modes",
    "stubs": ["xbt logging -> silent", "abort() = violation"],
    "assumptions": ["private block lists are sorted, non-overlapping and non-empty, as smpi_shared_malloc_partial builds them"],
    "functions_filter": r"private_blocks",
}


def queries(tier):
    qs = []
    mx = 2 if tier == "quick" else 3
    for nb in range(1, mx + 1):
        qs.append(Query(f"shift_nb{nb}", "C35/blocks.cpp", "harness_blocks", dict(P_MODE=0, P_NB=nb), SRC, unwind=nb + 2, cap_s=300, ll2c_cap=4, memcap=4, cross="z3"))
    for nb in range(1, mx + 1):
        for nd in range(1, mx + 1):
            qs.append(Query(f"merge_{nb}x{nd}", "C35/blocks.cpp", "harness_blocks", dict(P_MODE=1, P_NB=nb, P_ND=nd), SRC, unwind=nb + nd + 1, cap_s=300, ll2c_cap=4, memcap=4))
    for nb in range(1, 3):
        for nd in range(1, 3):
            qs.append(Query(f"pipeline_{nb}x{nd}", "C35/blocks.cpp", "harness_blocks", dict(P_MODE=2, P_NB=nb, P_ND=nd), SRC, unwind=nb + nd + 1, cap_s=600, ll2c_cap=4, memcap=4,
                            tiers=("quick", "thorough") if nb + nd <= 2 else ("thorough",)))
    return qs
