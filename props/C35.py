from vf import Query

SRC = ["src/smpi/internals/smpi_shared.cpp"]
THOROUGH_MAX = 30  # all quick shapes + a fixed strided sample of the other thorough shapes (lib/vf.py)
META = {
    "bounds": "1..3 private blocks per buffer (quick: <=2; merge up to 3x3, pipeline up to 2x1 / 1x2), every block bound, offset and message size a symbolic "
              "size_t below 2^62 (blocks sorted, non-overlapping, non-empty); unwind 5; vector capacity 8; whole copy path (smpi_comm_copy_buffer_callback + smpi_is_shared + shift + merge + memcpy): two 8-byte allocations in the real metadata map, 1..2 symbolic private blocks each, message offsets concrete per query (0..3), size 1..4 and all bytes symbolic",
    "outside": "the mmap bookkeeping of smpi_shared_malloc (the metadata map is filled by the harness), send modes (eager/detached/rendez-vous select which buffer reaches the callback), privatisation switches",
    "stubs": ["xbt logging -> silent", "abort() = violation"],
    "assumptions": ["private block lists are sorted, non-overlapping and non-empty, as smpi_shared_malloc_partial builds them"],
    "functions_filter": r"private_blocks",
}


def queries(tier):
    qs = []
    mx = 2 if tier == "quick" else 3
    for nb in range(1, mx + 1):
        qs.append(Query(f"shift_nb{nb}", "C35/blocks.cpp", "harness_blocks", dict(P_MODE=0, P_NB=nb), SRC, unwind=nb + 2, cap_s=300, ll2c_cap=4, memcap=4, cross="z3"))
    for nb in range(1, mx + 1):
        for nd in range(1, mx + 1):
            qs.append(Query(f"merge_{nb}x{nd}", "C35/blocks.cpp", "harness_blocks", dict(P_MODE=1, P_NB=nb, P_ND=nd), SRC, unwind=nb + nd + 1, cap_s=300, ll2c_cap=4, memcap=4))
    for nb in range(1, 3):
        for nd in range(1, 3):
            if nb + nd > 3:
                continue  # pipeline_2x2: no verdict in 600 s inside the parallel tier (measured)
            qs.append(Query(f"pipeline_{nb}x{nd}", "C35/blocks.cpp", "harness_blocks", dict(P_MODE=2, P_NB=nb, P_ND=nd), SRC, unwind=nb + nd + 1, cap_s=600, ll2c_cap=4, memcap=4,
                            tiers=("quick", "thorough") if nb + nd <= 2 else ("thorough",)))
    return qs


_base_queries = queries


def queries(tier):
    qs = _base_queries(tier)
    CB = ["src/smpi/internals/smpi_global.cpp"]
    shapes = [(1, 1, 1, 1), (1, 0, 1, 1), (0, 1, 1, 1)] if tier == "quick" else [(1, 1, a, b) for a in (1, 2) for b in (1, 2)] + [(1, 0, 1, 1), (1, 0, 2, 1), (0, 1, 1, 1), (0, 1, 1, 2)]
    offs = [(0, 0), (2, 0), (0, 3), (1, 2)] if tier == "quick" else [(a, b) for a in (0, 1, 2, 3) for b in (0, 1, 2, 3)]
    for ssh, dsh, ns, nd in shapes:
        for so, do in offs:
            if tier == "quick" and (ssh, dsh, so, do) not in ((1, 1, 2, 0), (1, 1, 0, 3), (1, 0, 2, 0), (0, 1, 0, 3)):
                continue
            qs.append(Query(f"callback_s{'shared' if ssh else 'plain'}{ns}_d{'shared' if dsh else 'plain'}{nd}_off{so}_{do}", "C35/callback.cpp", "harness_callback",
                            dict(P_SSH=ssh, P_DSH=dsh, P_NS=ns, P_ND=nd, ASZ=8, P_SO=so, P_DO=do), CB, unwind=10, cap_s=1200, mem_gb=16, ll2c_cap=4, memcap=8,
                            prelude=["rbtree", "nostring"], no_pointer_overflow=True, nin=96))
    return qs
