from vf import Query

SRC = ["src/mc/transition/Transition.cpp", "src/mc/transition/TransitionSynchro.cpp", "src/mc/transition/TransitionComm.cpp", "src/mc/transition/TransitionActor.cpp",
       "src/mc/transition/TransitionAny.cpp", "src/mc/transition/TransitionRandom.cpp", "src/mc/api/BasicTypes.cpp"]
TYPES = ["RANDOM", "ACTOR_JOIN", "ACTOR_SLEEP", "ACTOR_CREATE", "ACTOR_EXIT", "TESTANY", "WAITANY", "BARRIER_ASYNC_LOCK", "BARRIER_WAIT", "COMM_ASYNC_RECV",
         "COMM_ASYNC_SEND", "COMM_IPROBE", "COMM_TEST", "COMM_WAIT", "MUTEX_ASYNC_LOCK", "MUTEX_TEST", "MUTEX_TRYLOCK", "MUTEX_UNLOCK", "MUTEX_WAIT", "MUTEX_LOCK_NOMC",
         "SEM_ASYNC_LOCK", "SEM_UNLOCK", "SEM_WAIT", "SEM_LOCK_NOMC", "CONDVAR_ASYNC_LOCK", "CONDVAR_BROADCAST", "CONDVAR_SIGNAL", "CONDVAR_WAIT", "CONDVAR_NOMC"]
SKIP = {"TESTANY", "WAITANY", "MUTEX_LOCK_NOMC", "SEM_LOCK_NOMC", "CONDVAR_NOMC"}  # wrappers are handled by P_W; NOMC types are never evaluated by the checker
META = {
    "level_text": "Bounded symbolic execution of the real Transition::dispatch_depends (look-up table + evaluation rules) on two transition objects of concrete classes "
                  "whose fields (actor ids 0..3 or unknown, object ids 0..3, tags, flags) are symbolic: symmetry of the dependency relation, and dependence of same-actor "
                  "transitions. The commutation half of the property (independent transitions commute on the kernel state) is not decided here.",
    "bounds": "every unordered pair of the 24 transition types the checker evaluates (quick: all same-type pairs plus the pairs inside the barrier, communication and semaphore families), actor ids 0..3 (sender/"
              "receiver/owner possibly unknown), mailbox/communication/mutex/semaphore/barrier/condvar ids 0..3, tags and capacities any int; TESTANY/WAITANY wrapping one "
              "level (thorough: around the communication types); unwind 4",
    "outside": "commutation of the real kernel operations for pairs declared independent, co-enabledness, ObjectAccess transitions, states explored by the checker",
    "stubs": ["xbt logging -> silent", "abort() (xbt_die on NOMC/unwrapped pairs) = path outside the relation (assume false)", "std::string = 'nostring' model"],
    "assumptions": ["transition objects are built field by field (constructors need a channel): a wrapper is issued by the same actor as its inner transition"],
    "functions_filter": r"Transition",
}
FAMILIES = [("RANDOM", "ACTOR_JOIN", "ACTOR_SLEEP", "ACTOR_CREATE", "ACTOR_EXIT"), ("BARRIER_ASYNC_LOCK", "BARRIER_WAIT"),
            ("COMM_ASYNC_RECV", "COMM_ASYNC_SEND", "COMM_IPROBE", "COMM_TEST", "COMM_WAIT"),
            ("MUTEX_ASYNC_LOCK", "MUTEX_TEST", "MUTEX_TRYLOCK", "MUTEX_UNLOCK", "MUTEX_WAIT", "CONDVAR_ASYNC_LOCK", "CONDVAR_BROADCAST", "CONDVAR_SIGNAL", "CONDVAR_WAIT"),
            ("SEM_ASYNC_LOCK", "SEM_UNLOCK", "SEM_WAIT")]


def queries(tier):
    qs = []
    names = [t for t in TYPES if t not in SKIP]
    fam = {t: i for i, f in enumerate(FAMILIES) for t in f}
    for i, a in enumerate(names):
        for b in names[i:]:
            if tier == "quick" and not (a == b or (fam.get(a) == fam.get(b) and fam.get(a) in (1, 2, 4))):
                continue
            qs.append(Query(f"sym_{a}_{b}", "C39/symmetry.cpp", "harness_symmetry", dict(P_T1=TYPES.index(a), P_T2=TYPES.index(b)), SRC, unwind=4, cap_s=300,
                            prelude=["rbtree", "nostring"], no_pointer_overflow=True))
    comm = ("COMM_TEST", "COMM_WAIT")
    for w, wn in ((1, "TESTANY"), (2, "WAITANY")):
        inner = "COMM_TEST" if w == 1 else "COMM_WAIT"
        for b in (names if tier == "thorough" else list(FAMILIES[2]) + ["MUTEX_UNLOCK"]):
            qs.append(Query(f"sym_{wn}[{inner}]_{b}", "C39/symmetry.cpp", "harness_symmetry", dict(P_T1=TYPES.index(inner), P_W1=w, P_T2=TYPES.index(b)), SRC, unwind=4,
                            cap_s=300, prelude=["rbtree", "nostring"], no_pointer_overflow=True))
        qs.append(Query(f"sym_{wn}[{inner}]_{wn}[{inner}]", "C39/symmetry.cpp", "harness_symmetry", dict(P_T1=TYPES.index(inner), P_W1=w, P_T2=TYPES.index(inner), P_W2=w),
                        SRC, unwind=4, cap_s=300, prelude=["rbtree", "nostring"], no_pointer_overflow=True))
    return qs
