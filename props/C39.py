from vf import Query

SRC = ["src/mc/transition/Transition.cpp", "src/mc/transition/TransitionSynchro.cpp", "src/mc/transition/TransitionComm.cpp", "src/mc/transition/TransitionActor.cpp",
       "src/mc/transition/TransitionAny.cpp", "src/mc/transition/TransitionRandom.cpp", "src/mc/api/BasicTypes.cpp"]
TYPES = ["RANDOM", "ACTOR_JOIN", "ACTOR_SLEEP", "ACTOR_CREATE", "ACTOR_EXIT", "TESTANY", "WAITANY", "BARRIER_ASYNC_LOCK", "BARRIER_WAIT", "COMM_ASYNC_RECV",
         "COMM_ASYNC_SEND", "COMM_IPROBE", "COMM_TEST", "COMM_WAIT", "MUTEX_ASYNC_LOCK", "MUTEX_TEST", "MUTEX_TRYLOCK", "MUTEX_UNLOCK", "MUTEX_WAIT", "MUTEX_LOCK_NOMC",
         "SEM_ASYNC_LOCK", "SEM_UNLOCK", "SEM_WAIT", "SEM_LOCK_NOMC", "CONDVAR_ASYNC_LOCK", "CONDVAR_BROADCAST", "CONDVAR_SIGNAL", "CONDVAR_WAIT", "CONDVAR_NOMC"]
SKIP = {"TESTANY", "WAITANY", "MUTEX_LOCK_NOMC", "SEM_LOCK_NOMC", "CONDVAR_NOMC"}  # wrappers are handled by P_W; NOMC types are never evaluated by the checker
THOROUGH_MAX = 300  # all quick shapes + a fixed strided sample of the other thorough shapes (lib/vf.py)
META = {
    "level_text": "Bounded symbolic execution of the real code, two parts. (1) symmetry: Transition::dispatch_depends (look-up table + evaluation rules) on two transition "
                  "objects of concrete classes whose fields (actor ids, object ids, tags, flags) are symbolic: depends(a,b) == depends(b,a), same-actor transitions "
                  "dependent. (2) commutation for the synchronisation simcalls: a kernel state is built with the real kernel calls, two actors have a pending simcall "
                  "each; the real observers say whether each is enabled and encode them, the real deserialize_transition decodes them with symbolic object "
                  "identifiers, the real dispatch_depends decides; whenever both are enabled and declared independent the real kernel operations of the two simcalls "
                  "(MutexImpl, SemaphoreImpl, ConditionVariableImpl, BarrierImpl on their MC path) are run in both orders on two copies of the state: neither "
                  "disables the other and the two final kernel states are equal (owners, queues in order, semaphore value, acquisition statuses, simcall results, "
                  "actors woken).",
    "bounds": "symmetry: every unordered pair of the 24 transition types the checker evaluates (quick: same-type pairs plus the pairs inside the barrier, communication "
              "and semaphore families), actor ids 0..3 (sender/receiver/owner possibly unknown), object ids 0..3, tags and capacities any int, TESTANY/WAITANY wrapping "
              "one level, unwind 4. commutation: 13 synchronisation simcall kinds (mutex async_lock/trylock/unlock/wait, semaphore async_lock/unlock/wait, condvar "
              "async_lock/wait/signal/broadcast, barrier async_lock/wait), every unordered pair (quick: pairs inside the mutex+condvar, semaphore and barrier "
              "families, both on the same objects, shapes where both are enabled); 2 mutexes, 2 condition variables (pairs of condition-variable simcalls on the same or on different ones), 1 semaphore (capacity 1..2), 1 barrier (1..2 "
              "actors); a third actor may own the mutex or wait on the condition variable, a fourth may wait while the third owns (thorough); condition waits "
              "untimed, timed, or signalled beforehand; either preparation order (thorough); mutex / condvar / semaphore / barrier identifiers any unsigned "
              "(kinds are numbered separately: collisions across kinds included), the two mutexes distinct; unwind 8",
    "outside": "commutation of communication, actor (join/create/exit), random, test/any and object-access transitions (they need the network model and mailboxes), "
               "states actually explored by the checker on whole programs, recursive mutexes, more than two pending transitions at once; a condition variable waited "
               "for with two different mutexes at once (undefined for POSIX / C++ condition variables: the checker declares two such CONDVAR_ASYNC_LOCK independent "
               "although they fix the wake-up order -- see DESIGN.md section 9)",
    "stubs": ["xbt logging -> silent", "abort() (xbt_die on NOMC/unwrapped pairs) = path outside the relation (assume false) in the symmetry part, = violation in the "
              "commutation part", "std::string = 'nostring' model", "mc::Channel::pack / receive -> byte queue of the harness", "MC_is_active -> 1",
              "ActorImpl::simcall_answer -> counts who is woken", "__dynamic_cast = cxxrt model"],
    "assumptions": ["symmetry part: transition objects are built field by field (constructors need a channel); a wrapper is issued by the same actor as its inner transition",
                    "commutation part: the state is built and run with fixed object identifiers, the symbolic identifiers are in place while the two pending simcalls are "
                    "encoded (the kernel only uses identifiers to name acquisitions)",
                    "all the actors waiting on a condition variable use the same mutex"],
    "functions_filter": r"Transition|Observer|MutexImpl|SemaphoreImpl|ConditionVariable|Barrier|deserialize",
}
FAMILIES = [("RANDOM", "ACTOR_JOIN", "ACTOR_SLEEP", "ACTOR_CREATE", "ACTOR_EXIT"), ("BARRIER_ASYNC_LOCK", "BARRIER_WAIT"),
            ("COMM_ASYNC_RECV", "COMM_ASYNC_SEND", "COMM_IPROBE", "COMM_TEST", "COMM_WAIT"),
            ("MUTEX_ASYNC_LOCK", "MUTEX_TEST", "MUTEX_TRYLOCK", "MUTEX_UNLOCK", "MUTEX_WAIT", "CONDVAR_ASYNC_LOCK", "CONDVAR_BROADCAST", "CONDVAR_SIGNAL", "CONDVAR_WAIT"),
            ("SEM_ASYNC_LOCK", "SEM_UNLOCK", "SEM_WAIT")]


def queries(tier):
    qs = []
    names = [t for t in TYPES if t not in SKIP]
    fam = {t: i for i, f in enumerate(FAMILIES) for t in f}
    for i, a in enumerate(names):
        for b in names[i:]:
            if tier == "quick" and not (a == b or (fam.get(a) == fam.get(b) and fam.get(a) in (1, 2, 4))):
                continue
            qs.append(Query(f"sym_{a}_{b}", "C39/symmetry.cpp", "harness_symmetry", dict(P_T1=TYPES.index(a), P_T2=TYPES.index(b)), SRC, unwind=4, cap_s=300,
                            prelude=["rbtree", "nostring"], no_pointer_overflow=True))
    comm = ("COMM_TEST", "COMM_WAIT")
    for w, wn in ((1, "TESTANY"), (2, "WAITANY")):
        inner = "COMM_TEST" if w == 1 else "COMM_WAIT"
        for b in (names if tier == "thorough" else list(FAMILIES[2]) + ["MUTEX_UNLOCK"]):
            qs.append(Query(f"sym_{wn}[{inner}]_{b}", "C39/symmetry.cpp", "harness_symmetry", dict(P_T1=TYPES.index(inner), P_W1=w, P_T2=TYPES.index(b)), SRC, unwind=4,
                            cap_s=300, prelude=["rbtree", "nostring"], no_pointer_overflow=True))
        qs.append(Query(f"sym_{wn}[{inner}]_{wn}[{inner}]", "C39/symmetry.cpp", "harness_symmetry", dict(P_T1=TYPES.index(inner), P_W1=w, P_T2=TYPES.index(inner), P_W2=w),
                        SRC, unwind=4, cap_s=300, prelude=["rbtree", "nostring"], no_pointer_overflow=True))
    return qs


# ---- commutation half: real kernel operations of two pending simcalls, in both orders, when the real checker declares them independent
CSRC = ["src/kernel/actor/SynchroObserver.cpp", "src/kernel/actor/SimcallObserver.cpp", "src/mc/transition/Transition.cpp", "src/mc/transition/TransitionSynchro.cpp",
        "src/mc/transition/TransitionActor.cpp", "src/mc/transition/TransitionRandom.cpp", "src/mc/transition/TransitionComm.cpp", "src/mc/transition/TransitionAny.cpp",
        "src/kernel/activity/MutexImpl.cpp", "src/kernel/activity/SemaphoreImpl.cpp", "src/kernel/activity/BarrierImpl.cpp", "src/kernel/activity/ConditionVariableImpl.cpp",
        "src/kernel/activity/ActivityImpl.cpp", "src/mc/api/BasicTypes.cpp"]
KINDS = ["MUTEX_ASYNC_LOCK", "MUTEX_TRYLOCK", "MUTEX_UNLOCK", "MUTEX_WAIT", "SEM_ASYNC_LOCK", "SEM_UNLOCK", "SEM_WAIT", "CONDVAR_ASYNC_LOCK", "CONDVAR_WAIT", "CONDVAR_SIGNAL",
         "CONDVAR_BROADCAST", "BARRIER_ASYNC_LOCK", "BARRIER_WAIT"]
USES_MUTEX = {0, 1, 2, 3, 7, 8}
MUTEX_FAMILY = [0, 1, 2, 3, 7, 8, 9, 10]


def feasible(ka, kb, oa, ob, pre, order):
    """can the pre-state be built? (own() needs a free mutex)"""
    owner = {0: "C" if pre in (1, 3) else None, 1: None}
    seq = [("B", kb, ob), ("A", ka, oa)] if order else [("A", ka, oa), ("B", kb, ob)]
    if ka in (7, 8) and kb in (7, 8) and oa != ob:
        return False  # one condition variable waited for with two different mutexes at once: undefined for POSIX and C++ condition variables, not a shape a valid program reaches
    for who, k, o in seq:
        if k in (2, 7):
            if owner[o] is not None:
                return False
            owner[o] = who
        elif k == 8:
            if owner[o] is not None:
                return False
        elif k == 3 and owner[o] is None:
            owner[o] = who
    return True


def both_enabled(ka, kb, oa, ob, pre, order, d):
    """estimate (quick tier only keeps shapes where the commutation part is exercised; the harness asks the real observers)"""
    owner = {0: "C" if pre in (1, 3) else None, 1: None}
    cvq = ["C"] if pre == 2 else (["D"] if pre == 3 else [])
    sem_left, bar_n = d.get("P_CAP", 1), 0
    granted = {}
    seq = [("B", kb, ob), ("A", ka, oa)] if order else [("A", ka, oa), ("B", kb, ob)]
    for who, k, o in seq:
        if k in (2, 7):
            owner[o] = who
        elif k == 8:
            cvq.append(who)
        elif k == 3:
            if owner[o] is None:
                owner[o] = who
            granted[who] = owner[o] == who
        elif k == 6:
            granted[who] = sem_left > 0
            sem_left -= 1 if sem_left > 0 else 0
        elif k == 12:
            bar_n += 1
    for who, k, o in seq:
        if k == 12:
            granted[who] = bar_n >= d.get("P_BAR", 2)
        if k == 8:
            granted[who] = bool(d.get("P_TMO")) or (bool(d.get("P_SIG")) and cvq and cvq[0] == who)
    return all(granted.get(w, True) for w in ("A", "B"))


def commute_queries(tier):
    qs = []
    seen = set()
    for ka in range(len(KINDS)):
        for kb in range(ka, len(KINDS)):
            fam_pair = ka in MUTEX_FAMILY and kb in MUTEX_FAMILY
            objs = [(0, 0), (0, 1)] if (ka in USES_MUTEX and kb in USES_MUTEX) else [(0, 0)]
            for oa, ob in objs:
                for pre in (0, 1, 2, 3):
                    for order in (0, 1):
                        for var in range(3):
                            d = dict(P_KA=ka, P_KB=kb, P_OA=oa, P_OB=ob, P_PRE=pre, P_ORD=order)
                            # variants: how waits become enabled
                            if var == 1:
                                if 8 not in (ka, kb):
                                    continue
                                d["P_TMO"] = 1
                            elif var == 2:
                                if 8 not in (ka, kb) and pre not in (2, 3):  # a signal nobody waits for is lost
                                    continue
                                d["P_SIG"] = 1
                            if 6 in (ka, kb) or 4 in (ka, kb):
                                d["P_CAP"] = 2 if (ka == kb == 6) else 1
                            if 12 in (ka, kb):
                                d["P_BAR"] = 2 if (ka == kb == 12) else 1
                            if not feasible(ka, kb, oa, ob, pre, order):
                                continue
                            # two condition variables: B may use the second one (pairs of condition-variable simcalls only)
                            cvs = [(0, 0)]
                            if ka in (7, 8, 9, 10) and kb in (7, 8, 9, 10) and (tier == "thorough" or (pre == 0 and not order and var != 2)):
                                cvs.append((0, 1))
                            for ca, cb in cvs:
                                dd = dict(d, P_CA=ca, P_CB=cb) if (ca, cb) != (0, 0) else d
                                if tier == "quick":
                                    if order or pre == 3 or (pre == 2 and (not ({ka, kb} & {9, 10}) or d.get("P_SIG"))) or not (fam_pair or (ka in (4, 5, 6) and kb in (4, 5, 6)) or (ka >= 11 and kb >= 11)):
                                        continue
                                    if (oa, ob) != (0, 0) or (pre == 1 and not ({ka, kb} & {0, 1, 3})) or not both_enabled(ka, kb, oa, ob, pre, order, d):
                                        continue
                                name = f"commute_{KINDS[ka]}_{KINDS[kb]}_o{oa}{ob}" + (f"_c{ca}{cb}" if (ca, cb) != (0, 0) else "") + f"_pre{pre}" + ("_ord" if order else "") + \
                                       ("_tmo" if d.get("P_TMO") else "") + ("_sig" if d.get("P_SIG") else "")
                                if name in seen:
                                    continue
                                seen.add(name)
                                qs.append(Query(name, "C39/commute.cpp", "harness_commute", dd, CSRC, unwind=8, cap_s=600, mem_gb=12, memcap=16,
                                                prelude=["rbtree", "nostring"], no_pointer_overflow=True))
    return qs


_sym_queries = queries


def queries(tier):  # noqa: F811
    return _sym_queries(tier) + commute_queries(tier)
