from vf import Query

SRC = ["src/mc/explo/odpor/Execution.cpp", "src/mc/api/ClockVector.cpp", "src/mc/transition/Transition.cpp", "src/mc/transition/TransitionSynchro.cpp",
       "src/mc/transition/TransitionComm.cpp", "src/mc/transition/TransitionActor.cpp", "src/mc/transition/TransitionAny.cpp", "src/mc/transition/TransitionRandom.cpp",
       "src/mc/smemory/MemoryAccessTrace.cpp", "src/mc/api/BasicTypes.cpp"]
THOROUGH_MAX = 140  # all quick shapes + a fixed strided sample of the other thorough shapes (lib/vf.py)
META = {
    "level_text": "Bounded symbolic execution of the real odpor::Execution::push_transition (clock vectors) and happens_before on executions of mutex transitions whose "
                  "mutexes are symbolic (the real dependency look-up table and rules decide which pairs depend); compared with the definition (transitive closure of "
                  "pairwise dependency along the execution). First half of the property only: the racing events are not decided.",
    "bounds": "executions of 2..4 events (quick: ..3) over actors 0..2, every assignment of actors to positions up to renaming; the kind of each event among the 5 mutex kinds per query (quick: 4 kind vectors per shape; thorough: all for n<=3), "
              "mutex ids symbolic in 0..1; no memory accesses recorded in the transitions; unwind 34 (clock vectors have 32 entries)",
    "outside": "get_racing_events_of (second half of the property: std::list sort/unique over a symbolic number of candidates, no verdict in 400 s for 2 events), other transition families (comm, semaphore, condvar, barrier, actor), executions longer than 4, data-race epochs (memory traces), ODPOR extensions and "
               "wakeup trees built from the races",
    "stubs": ["transition objects built field by field (constructors need a channel)", "xbt logging -> silent", "abort() = violation", "std::string = 'nostring' model"],
    "assumptions": [],
    "functions_filter": r"Execution|ClockVector|Event|dispatch_depends",
}


def shapes(n):
    """actor sequences up to renaming (restricted growth strings) over at most 3 actors"""
    out = []

    def rec(prefix, mx):
        if len(prefix) == n:
            out.append(tuple(prefix))
            return
        for a in range(min(mx + 1, 2) + 1):
            rec(prefix + [a], max(mx, a))
    rec([0], 0)
    return out


KN = "LTUWE"  # async Lock, Trylock, Unlock, Wait, tEst


def queries(tier):
    import itertools
    qs = []
    for n in (2, 3, 4):
        if tier == "quick" and n == 4:
            continue
        for sh in shapes(n):
            if len(set(sh)) == 1:
                continue
            if tier == "quick":
                kvs = [(0,) * n, (1, 2, 0, 1)[:n], (3, 2, 0, 2)[:n], (0, 1, 1, 0)[:n]]
            elif n <= 3:
                kvs = list(itertools.product(range(5), repeat=n))
            else:
                kvs = [kv for kv in itertools.product(range(4), repeat=n) if sum(kv) % 5 == 0]
            for kv in kvs:
                d = dict(P_N=n, P_RACES=0)
                for i, a in enumerate(sh):
                    d[f"P_A{i}"] = a
                    d[f"P_K{i}"] = kv[i]
                nm = "".join(map(str, sh)) + "_" + "".join(KN[k] for k in kv)
                qs.append(Query("hb_" + nm, "C42/hb.cpp", "harness_hb", d, SRC, unwind=34, cap_s=600, mem_gb=12, memcap=40, ll2c_cap=40,
                                prelude=["rbtree", "nostring"], no_pointer_overflow=True))
                # (P_RACES=1 -- get_racing_events_of -- collects candidates in std::lists whose length depends on which pairs depend, then list::sort (64 temporary
                #  lists) and unique: merge mode explodes, path by path needs a solver call per unwinding check: no verdict in 400 s for 2 events. Not claimed.)
    return qs
