from vf import Query

SRC = ["src/kernel/actor/CommObserver.cpp", "src/kernel/activity/MessageQueueImpl.cpp", "src/kernel/actor/SynchroObserver.cpp", "src/kernel/actor/SimcallObserver.cpp", "src/mc/transition/Transition.cpp", "src/mc/transition/TransitionSynchro.cpp",
       "src/mc/transition/TransitionActor.cpp", "src/mc/transition/TransitionRandom.cpp", "src/mc/transition/TransitionComm.cpp", "src/mc/transition/TransitionAny.cpp",
       "src/kernel/activity/MutexImpl.cpp", "src/kernel/activity/SemaphoreImpl.cpp", "src/kernel/activity/BarrierImpl.cpp", "src/kernel/activity/ConditionVariableImpl.cpp",
       "src/kernel/activity/ActivityImpl.cpp", "src/mc/api/BasicTypes.cpp"]
KINDS = ["mutex_async_lock", "mutex_trylock", "mutex_unlock", "mutex_wait", "mutex_test", "sem_async_lock", "sem_unlock", "sem_wait", "barrier_async_lock", "barrier_wait",
         "condvar_async_lock", "condvar_wait", "condvar_signal", "condvar_broadcast", "random", "actor_join", "actor_exit", "actor_sleep", "actor_create", "mess_iput", "mess_iget"]
META = {
    "level_text": "Encode/decode round trip over the real code: the real Observer::serialize of each simcall kind writes into a byte queue standing for the socket, the real "
                  "deserialize_transition and transition constructors read it back; ids, pids, flags and values are symbolic. Decided: same type, same actor, same fields, "
                  "and the reader consumes exactly the bytes written (a shortfall is the hang the property mentions).",
    "bounds": "19 simcall kinds (mutex x5, semaphore x3, barrier x2, condition variable x4, random, actor join/exit/sleep/create); object ids any unsigned, issuer pid 1..30, the other pids (mutex owner, join target, created child) 1..33: 31 and above must be refused by an exception and never decoded as another actor, owner "
              "present or not, granted / timeout flags, semaphore capacity and random bounds symbolic; unwind 8",
    "outside": "communication, message-queue, test/wait/testany/waitany and object-access observers (they serialise through activities and strings: call locations are "
               "std::string, not tracked), the transport itself (mc::Channel buffering, sockets, AppSide/CheckerSide message loop), the guarded logging hook suggested in the "
               "property file is not needed for this encoding",
    "stubs": ["mc::Channel::pack / receive -> byte queue of the harness (no hook in /repo: the 2 MiB buffers of the real class are never instantiated)", "MC_is_active -> 1",
              "ActorImpl::simcall_answer", "xbt logging -> silent", "abort() = violation", "std::string = 'nostring' model", "__dynamic_cast = cxxrt model"],
    "assumptions": ["kernel objects are built by their real constructors and given symbolic identifiers"],
    "functions_filter": r"Observer|Simcall|Transition|deserialize",
}


def queries(tier):
    return [Query(f"roundtrip_{name}", "C43/roundtrip.cpp", "harness_roundtrip", dict(P_KIND=k), SRC, unwind=18, cap_s=600, mem_gb=12, memcap=16, prelude=["rbtree", "nostring"],
                  no_pointer_overflow=True) for k, name in enumerate(KINDS)]
