from vf import Query

SRC = ["src/xbt/random.cpp"]
META = {
    "bounds": "uniform_int: every int pair min <= max (full 32-bit range), raw generator words symbolic in [0, 2^32), a word accepted within 3 draws (a 4th draw is outside); "
              "uniform_real: bounds on a 10-value grid (0, +-1, 0.5, 1e-300, +-1e300, 3, 1e9, -7.25), raw word symbolic, at most one rejected word; unwind 4",
    "outside": "the Mersenne-twister state update itself (std::mt19937::operator() is replaced by a symbolic word source), exponential/normal, the StdRandom back end, "
               "'the sequence is fixed by SimGrid's code' (a source-level fact, not a solver question), uniform_real for arbitrary doubles (full-range FP multiply/divide: no back end finishes)",
    "stubs": ["std::mersenne_twister_engine::operator() -> next symbolic 32-bit word (asm-label override)", "xbt logging -> silent", "abort() = violation"],
    "assumptions": ["unbiasedness is only partly decided: acceptance iff word < L (checked on the real loop) with L a positive multiple of the range (lemma); that the accepted word is mapped to min + word mod range is NOT decided (no verdict within 300 s), only that the result is inside [min,max]"],
    "functions_filter": r"XbtRandom",
}


def queries(tier):
    qs = []
    for mode, name in ((0, "accept"), (3, "reject_accept")):
        # (the third obligation, result == min + word mod range, exists in the harness as P_CHECK=3 but no back end decides it within 300 s,
        #  even for ranges <= 256 or against the captured word: it is not claimed)
        for chk, cname in ((1, "count"), (2, "inrange")):
            qs.append(Query(f"uniform_int_{name}_{cname}", "C45/random.cpp", "harness_random", dict(P_MODE=mode, P_CHECK=chk), SRC, unwind={0: 2, 3: 3}[mode],
                            cap_s=600, backend="cvc5int", noopt=True))
    qs.append(Query("uniform_int_bound_lemma", "C45/random.cpp", "harness_random", dict(P_MODE=2), SRC, unwind=2, cap_s=600, backend="cvc5int", noopt=True))
    qs.append(Query("uniform_int_full_range", "C45/random.cpp", "harness_random", dict(P_MODE=0, P_FULL=1), SRC, unwind=4, cap_s=600, noopt=True))
    qs.append(Query("uniform_real_grid", "C45/random.cpp", "harness_random", dict(P_MODE=1, P_HUGE=0), SRC, unwind=4, cap_s=900, backend="kissat"))
    qs.append(Query("uniform_real_huge", "C45/random.cpp", "harness_random", dict(P_MODE=1, P_HUGE=1), SRC, unwind=4, cap_s=900, backend="kissat"))
    return qs
