from vf import Query

OPS = ["write", "write_inside", "read", "seek", "unlink"]
META = {
    "bounds": "one disk, the file under test plus an aggregate of the other files; file size, position, size of the other files, disk capacity (<= 2^60), request size, "
              "amount reported by the disk model and seek offset/origin all symbolic 64-bit under the invariant used = sum of sizes <= capacity, position <= size; "
              "one operation per query (write, in-place write, read, seek, unlink); unwind 6",
    "outside": "open/close (mount-point and path parsing), move, remote_copy, remote hosts (data transfer), the content map keyed by path (strings are not tracked), "
               "several handles on one file, sequences are covered by induction over an arbitrary consistent state",
    "stubs": ["s4u::Disk::read/write -> symbolic amount <= request", "Disk::get_host / Host::current -> one host (local file)", "simcall_run_answered -> runs the code in place",
              "Comm::sendto -> no-op", "std::string = 'nostring' model", "xbt logging -> silent", "abort() = violation"],
    "assumptions": ["invariant of the state: used size = size of the file + size of the others <= capacity, position <= size"],
    "functions_filter": r"File|FileSystem",
}


def queries(tier):
    return [Query(name, "C46/fs.cpp", "harness_fs", dict(P_OP=i), [], unwind=6, cap_s=600, prelude=["rbtree", "nostring"], no_pointer_overflow=True)
            for i, name in enumerate(OPS)]
