from vf import Query

SRC = ["src/xbt/dynar.cpp"]
OPS = ["insert_at", "remove_at", "push", "pop", "shift", "unshift", "set_at", "get", "member"]
THOROUGH_MAX = 60  # all quick shapes + a fixed strided sample of the other thorough shapes (lib/vf.py)
META = {
    "bounds": "xbt_dict: set / set / get_or_null (both flavours) / remove_ext sequences of at most 3 operations on a fresh dictionary with two symbolic keys of 1..2 arbitrary non-NUL bytes against a map model; xbt_dynar: element size 4 or 8 (concrete per query), capacity 0..4 (quick: 0..3), number of used slots, every element, the index and the new "
              "value symbolic; one operation per query (insert_at, remove_at, push, pop, shift, unshift, set_at_ptr, get_cpy/get_ptr, member) compared with an array model; unwind 8",
    "outside": "xbt_dict rehashing (needs > 100 keys), cursors, longer keys and longer histories, xbt_dynar_sort (libc qsort), dynars with a free function, cursors/foreach macros, sequences "
               "longer than one step are covered by induction over an arbitrary valid dynar, not by unrolling",
    "stubs": ["xbt logging -> silent", "abort() = violation", "malloc/realloc/free = CBMC's models (allocation never fails)"],
    "assumptions": ["valid dynar: used <= size, data holds size elements"],
    "functions_filter": r"dynar",
}


def queries(tier):
    qs = []
    msz = 2 if tier == "quick" else 4
    for elm in (4, 8):
        for size in range(0, msz + 1):
            for op, name in enumerate(OPS):
                if size == 0 and name in ("remove_at", "pop", "shift", "get"):
                    continue
                if tier == "quick" and elm == 8 and size not in (0, msz):
                    continue
                qs.append(Query(f"{name}_elm{elm}_cap{size}", "C50/dynar.cpp", "harness_dynar", dict(P_ELM=elm, P_SIZE=size, P_OP=op), SRC, unwind=10, cap_s=300,
                                ll2c_cap=16, memcap=80, extra_cbmc=["--unwindset", "ll2c_memcpy_unsigned_char.0:81,ll2c_memmove_unsigned_char.0:81,ll2c_memmove_unsigned_char.1:81,ll2c_memset_unsigned_char.0:81,ll2c_realloc.0:81"]))
    for m, name in enumerate(("dict_set_get", "dict_set_set_get", "dict_set_set_remove")):
        qs.append(Query(name, "C50/dict.cpp", "harness_dict", dict(P_MODE=m), ["src/xbt/dict.cpp", "src/xbt/dict_elm.c"], unwind=6, cap_s=2400, mem_gb=12,
                        prelude=["rbtree", "nostring"], no_pointer_overflow=True, tiers=("thorough",) if m == 0 else ("quick", "thorough")))  # (m == 0: 850 s)
    return qs
