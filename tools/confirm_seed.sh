#!/bin/bash
# usage: confirm_seed.sh <seed-dir> <agent-worktree-path>
# Confirms a seeded change in the scratch template worktree /tmp/wtpl (full build of /repo HEAD):
#   with the patch: builds, demo FAILS, the 104 pinned tests PASS; without the patch: demo PASSES.
S=$(cd "$1" && pwd); AW=$2; T=/tmp/wtpl
set -u
cd $T || exit 9
git checkout -q -- . ; git clean -fdq src include 2>/dev/null
git checkout -q --detach $(git -C /repo rev-parse HEAD) || exit 9
W=$(mktemp -d /tmp/seedrun.XXXXXX)
cp -r $S/* $W/; sed -i "s#$AW#$T#g" $W/run.sh
log() { echo "[confirm] $*"; }
git apply $S/patch.diff || { log "patch does not apply"; exit 9; }
log "building with the change"; nice ninja -C _build -j8 all tests > $W/build1.log 2>&1 || { log "BUILD FAILED with the change"; tail -20 $W/build1.log; git checkout -q -- .; exit 2; }
sh $W/run.sh > $W/demo_with.log 2>&1; r1=$?
log "demo with the change: exit $r1 (expected non-zero)"; tail -5 $W/demo_with.log
/verif/tools/pinned_tests.sh $T/_build > $W/tests.log 2>&1; rt=$?
log "pinned tests with the change: exit $rt"; tail -2 $W/tests.log
git checkout -q -- .
log "rebuilding without the change"; nice ninja -C _build -j8 all tests > $W/build2.log 2>&1
sh $W/run.sh > $W/demo_without.log 2>&1; r0=$?
log "demo without the change: exit $r0 (expected 0)"; tail -3 $W/demo_without.log
echo "RESULT with=$r1 tests=$rt without=$r0"
mkdir -p $S/logs; cp $W/demo_with.log $W/demo_without.log $W/tests.log $S/logs/ 2>/dev/null
rm -rf $W
[ $r1 -ne 0 ] && [ $rt -eq 0 ] && [ $r0 -eq 0 ]
