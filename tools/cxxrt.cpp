// C++ runtime / libstdc++ out-of-line helpers modelled for CBMC (linked as IR into every harness)
#include <cstddef>
#include <cstdlib>
#include <list>
#include <new>
extern "C" {
void __CPROVER_assume(bool);
void __CPROVER_assert(bool, const char*);
}
void operator delete(void* p) noexcept { free(p); }
void operator delete[](void* p) noexcept { free(p); }
void operator delete(void* p, std::size_t) noexcept { free(p); }
void operator delete[](void* p, std::size_t) noexcept { free(p); }

namespace std {
void __throw_length_error(const char*) { __CPROVER_assert(false, "std::length_error thrown"); __CPROVER_assume(false); __builtin_unreachable(); }
void __throw_bad_alloc() { __CPROVER_assert(false, "std::bad_alloc thrown"); __CPROVER_assume(false); __builtin_unreachable(); }
void __throw_bad_array_new_length() { __CPROVER_assert(false, "std::bad_array_new_length thrown"); __CPROVER_assume(false); __builtin_unreachable(); }
void __throw_out_of_range_fmt(const char*, ...) { __CPROVER_assert(false, "std::out_of_range thrown"); __CPROVER_assume(false); __builtin_unreachable(); }
void __throw_bad_function_call() { __CPROVER_assert(false, "std::bad_function_call thrown"); __CPROVER_assume(false); __builtin_unreachable(); }
namespace __detail {
void _List_node_base::_M_hook(_List_node_base* const __position) noexcept
{
  this->_M_next               = __position;
  this->_M_prev               = __position->_M_prev;
  __position->_M_prev->_M_next = this;
  __position->_M_prev          = this;
}
void _List_node_base::_M_unhook() noexcept
{
  _List_node_base* const __next_node = this->_M_next;
  _List_node_base* const __prev_node = this->_M_prev;
  __prev_node->_M_next               = __next_node;
  __next_node->_M_prev               = __prev_node;
}
} // namespace __detail
} // namespace std
extern "C" {
int __cxa_guard_acquire(long long* g) { return *reinterpret_cast<char*>(g) == 0; }
void __cxa_guard_release(long long* g) { *reinterpret_cast<char*>(g) = 1; }
int __cxa_atexit(void (*)(void*), void*, void*) { return 0; }
void __cxa_pure_virtual() { __CPROVER_assert(false, "pure virtual called"); __CPROVER_assume(false); }
}

// ---------------------------------------------------------------------------------------------------------------------
// __dynamic_cast: model for classes with non-virtual (single or multiple) inheritance, walking the type_info objects that
// clang emits (Itanium ABI layout).  Returns the unique public-base-or-derived subobject of type dst inside the complete
// object, or null.  Virtual bases are reported as unsupported.
namespace {
struct ti_base { const void* vptr; const char* name; };
struct ti_si : ti_base { const ti_base* base; };
struct ti_vmi_base { const ti_base* base; long offset_flags; };
struct ti_vmi : ti_base { unsigned flags; unsigned base_count; ti_vmi_base bases[1]; };
} // namespace
extern "C" {
extern void* _ZTVN10__cxxabiv120__si_class_type_infoE[];
extern void* _ZTVN10__cxxabiv121__vmi_class_type_infoE[];
extern void* _ZTVN10__cxxabiv117__class_type_infoE[];
}
static bool cxxrt_is_si(const ti_base* t) { return t->vptr == static_cast<const void*>(&_ZTVN10__cxxabiv120__si_class_type_infoE[2]); }
static bool cxxrt_is_vmi(const ti_base* t) { return t->vptr == static_cast<const void*>(&_ZTVN10__cxxabiv121__vmi_class_type_infoE[2]); }
// follows single-base links only (iterative: bounded by the unwinding limit, reported if exceeded)
static const char* cxxrt_chain(const ti_base* t, const ti_base* dst, const char* obj)
{
  for (int d = 0; d < 6; d++) {
    if (t == dst)
      return obj;
    if (cxxrt_is_si(t))
      t = static_cast<const ti_si*>(t)->base;
    else if (cxxrt_is_vmi(t) && static_cast<const ti_vmi*>(t)->base_count == 1) {
      const ti_vmi* v = static_cast<const ti_vmi*>(t);
      __CPROVER_assert((v->bases[0].offset_flags & 1) == 0, "cxxrt: dynamic_cast through a virtual base is not modelled");
      obj += v->bases[0].offset_flags >> 8;
      t = v->bases[0].base;
    } else
      return nullptr;
  }
  __CPROVER_assert(false, "cxxrt: dynamic_cast inheritance chain deeper than the model");
  return nullptr;
}
static const char* cxxrt_find(const ti_base* t, const ti_base* dst, const char* obj, int)
{
  for (int d = 0; d < 6; d++) {
    if (t == dst)
      return obj;
    if (cxxrt_is_si(t))
      t = static_cast<const ti_si*>(t)->base;
    else if (cxxrt_is_vmi(t)) {
      const ti_vmi* v = static_cast<const ti_vmi*>(t);
      if (v->base_count == 1) {
        __CPROVER_assert((v->bases[0].offset_flags & 1) == 0, "cxxrt: dynamic_cast through a virtual base is not modelled");
        obj += v->bases[0].offset_flags >> 8;
        t = v->bases[0].base;
      } else { // several bases: each of them is searched along single-base links (enough for SimGrid's hierarchies)
        for (unsigned i = 0; i < v->base_count && i < 3; i++) {
          __CPROVER_assert((v->bases[i].offset_flags & 1) == 0, "cxxrt: dynamic_cast through a virtual base is not modelled");
          const char* r = cxxrt_chain(v->bases[i].base, dst, obj + (v->bases[i].offset_flags >> 8));
          if (r != nullptr)
            return r;
        }
        return nullptr;
      }
    } else
      return nullptr;
  }
  __CPROVER_assert(false, "cxxrt: dynamic_cast inheritance chain deeper than the model");
  return nullptr;
}
extern "C" void* __dynamic_cast(const void* sub, const void* /*src*/, const void* dst, long /*src2dst*/)
{
  void* const* vptr   = *static_cast<void* const* const*>(sub);
  long offset_to_top  = reinterpret_cast<long>(vptr[-2]);
  const ti_base* whole_type = static_cast<const ti_base*>(vptr[-1]);
  const char* whole   = static_cast<const char*>(sub) + offset_to_top;
  return const_cast<char*>(cxxrt_find(whole_type, static_cast<const ti_base*>(dst), whole, 0));
}
