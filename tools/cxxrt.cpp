// C++ runtime / libstdc++ out-of-line helpers modelled for CBMC (linked as IR into every harness)
#include <cstddef>
#include <cstdlib>
#include <list>
#include <new>
extern "C" {
void __CPROVER_assume(bool);
void __CPROVER_assert(bool, const char*);
}
void operator delete(void* p) noexcept { free(p); }
void operator delete[](void* p) noexcept { free(p); }
void operator delete(void* p, std::size_t) noexcept { free(p); }
void operator delete[](void* p, std::size_t) noexcept { free(p); }

namespace std {
void __throw_length_error(const char*) { __CPROVER_assert(false, "std::length_error thrown"); __CPROVER_assume(false); __builtin_unreachable(); }
void __throw_bad_alloc() { __CPROVER_assert(false, "std::bad_alloc thrown"); __CPROVER_assume(false); __builtin_unreachable(); }
void __throw_bad_array_new_length() { __CPROVER_assert(false, "std::bad_array_new_length thrown"); __CPROVER_assume(false); __builtin_unreachable(); }
void __throw_out_of_range_fmt(const char*, ...) { __CPROVER_assert(false, "std::out_of_range thrown"); __CPROVER_assume(false); __builtin_unreachable(); }
void __throw_bad_function_call() { __CPROVER_assert(false, "std::bad_function_call thrown"); __CPROVER_assume(false); __builtin_unreachable(); }
namespace __detail {
void _List_node_base::_M_hook(_List_node_base* const __position) noexcept
{
  this->_M_next               = __position;
  this->_M_prev               = __position->_M_prev;
  __position->_M_prev->_M_next = this;
  __position->_M_prev          = this;
}
void _List_node_base::_M_unhook() noexcept
{
  _List_node_base* const __next_node = this->_M_next;
  _List_node_base* const __prev_node = this->_M_prev;
  __prev_node->_M_next               = __next_node;
  __next_node->_M_prev               = __prev_node;
}
} // namespace __detail
} // namespace std
extern "C" {
int __cxa_guard_acquire(long long* g) { return *reinterpret_cast<char*>(g) == 0; }
void __cxa_guard_release(long long* g) { *reinterpret_cast<char*>(g) = 1; }
int __cxa_atexit(void (*)(void*), void*, void*) { return 0; }
void __cxa_pure_virtual() { __CPROVER_assert(false, "pure virtual called"); __CPROVER_assume(false); }
}
