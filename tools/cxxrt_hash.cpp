// Rehash policy of libstdc++'s unordered containers (src/c++11/hashtable_c++0x.cc is not available as IR): re-implementation of the documented behaviour
// (bucket counts are primes, growth when the load factor would be exceeded). Which prime is chosen does not matter for the semantics of the containers.
#include <unordered_map>
#include <cmath>
namespace std::__detail {
static const unsigned long primes[] = {2, 5, 13, 29, 59, 127, 257}; // (short table: containers of the harnesses stay small, and the loop below stays short)
size_t _Prime_rehash_policy::_M_next_bkt(size_t n) const
{
  unsigned long p = primes[sizeof primes / sizeof primes[0] - 1];
  for (int i = sizeof primes / sizeof primes[0] - 1; i >= 0; i--)
    if (primes[i] >= n)
      p = primes[i];
  _M_next_resize = static_cast<size_t>(__builtin_floor(p * static_cast<double>(_M_max_load_factor)));
  return p;
}
std::pair<bool, size_t> _Prime_rehash_policy::_M_need_rehash(size_t n_bkt, size_t n_elt, size_t n_ins) const
{
  if (n_elt + n_ins > _M_next_resize) {
    size_t want      = n_elt + n_ins;
    if (_M_next_resize == 0 && want < 11)
      want = 11;
    double min_bkts = want / static_cast<double>(_M_max_load_factor);
    if (min_bkts >= n_bkt) {
      size_t a = static_cast<size_t>(__builtin_floor(min_bkts)) + 1, b = n_bkt * 2;
      return {true, _M_next_bkt(a > b ? a : b)};
    }
    _M_next_resize = static_cast<size_t>(__builtin_floor(n_bkt * static_cast<double>(_M_max_load_factor)));
    return {false, 0};
  }
  return {false, 0};
}
} // namespace std::__detail
