// "nostring" model: std::string objects built by the code under test stay valid but EMPTY (contents are not tracked).
// Only linked into harnesses where strings are names / log messages that no checked property depends on; listed in the evidence.
// The definitions take the mangled names of the libstdc++ members (asm labels), so they override the header (linkonce) versions at link time.
#include <cstddef>
namespace {
struct Str { // layout of std::__cxx11::basic_string<char>
  char* p;
  std::size_t len;
  union { char buf[16]; std::size_t cap; };
};
inline void set_empty(Str* s) { s->p = s->buf; s->len = 0; s->buf[0] = 0; }
} // namespace
#define SYM(name) __asm__(name)
extern "C" {
Str* ns_replace(Str* self, std::size_t, std::size_t, const char*, std::size_t) SYM("_ZNSt7__cxx1112basic_stringIcSt11char_traitsIcESaIcEE10_M_replaceEmmPKcm");
Str* ns_replace(Str* self, std::size_t, std::size_t, const char*, std::size_t) { return self; }
void ns_mutate(Str*, std::size_t, std::size_t, const char*, std::size_t) SYM("_ZNSt7__cxx1112basic_stringIcSt11char_traitsIcESaIcEE9_M_mutateEmmPKcm");
void ns_mutate(Str*, std::size_t, std::size_t, const char*, std::size_t) {}
Str* ns_append(Str* self, const char*, std::size_t) SYM("_ZNSt7__cxx1112basic_stringIcSt11char_traitsIcESaIcEE9_M_appendEPKcm");
Str* ns_append(Str* self, const char*, std::size_t) { return self; }
void ns_assign(Str*, const Str*) SYM("_ZNSt7__cxx1112basic_stringIcSt11char_traitsIcESaIcEE9_M_assignERKS4_");
void ns_assign(Str*, const Str*) {}
Str* ns_replace_aux(Str* self, std::size_t, std::size_t, std::size_t, char) SYM("_ZNSt7__cxx1112basic_stringIcSt11char_traitsIcESaIcEE14_M_replace_auxEmmmc");
Str* ns_replace_aux(Str* self, std::size_t, std::size_t, std::size_t, char) { return self; }
void ns_construct_fill(Str* self, std::size_t, char) SYM("_ZNSt7__cxx1112basic_stringIcSt11char_traitsIcESaIcEE12_M_constructEmc");
void ns_construct_fill(Str* self, std::size_t, char) { set_empty(self); }
void ns_construct_cc(Str* self, const char*, const char*) SYM("_ZNSt7__cxx1112basic_stringIcSt11char_traitsIcESaIcEE12_M_constructIPKcEEvT_S8_St20forward_iterator_tag");
void ns_construct_cc(Str* self, const char*, const char*) { set_empty(self); }
void ns_construct_c(Str* self, char*, char*) SYM("_ZNSt7__cxx1112basic_stringIcSt11char_traitsIcESaIcEE12_M_constructIPcEEvT_S7_St20forward_iterator_tag");
void ns_construct_c(Str* self, char*, char*) { set_empty(self); }
void ns_reserve(Str*, std::size_t) SYM("_ZNSt7__cxx1112basic_stringIcSt11char_traitsIcESaIcEE7reserveEm");
void ns_reserve(Str*, std::size_t) {}
// std::operator+(std::string&&, std::string&&)  (result through sret)
void ns_plus_rr(Str* result, Str*, Str*) SYM("_ZStplIcSt11char_traitsIcESaIcEENSt7__cxx1112basic_stringIT_T0_T1_EEOS8_S9_");
void ns_plus_rr(Str* result, Str*, Str*) { set_empty(result); }
void ns_plus_rc(Str* result, Str*, const char*) SYM("_ZStplIcSt11char_traitsIcESaIcEENSt7__cxx1112basic_stringIT_T0_T1_EEOS8_PKS5_");
void ns_plus_rc(Str* result, Str*, const char*) { set_empty(result); }
void ns_plus_cr(Str* result, const char*, Str*) SYM("_ZStplIcSt11char_traitsIcESaIcEENSt7__cxx1112basic_stringIT_T0_T1_EEPKS5_OS8_");
void ns_plus_cr(Str* result, const char*, Str*) { set_empty(result); }
void ns_plus_lc(Str* result, const Str*, const char*) SYM("_ZStplIcSt11char_traitsIcESaIcEENSt7__cxx1112basic_stringIT_T0_T1_EERKS8_PKS5_");
void ns_plus_lc(Str* result, const Str*, const char*) { set_empty(result); }
void ns_plus_cl(Str* result, const char*, const Str*) SYM("_ZStplIcSt11char_traitsIcESaIcEENSt7__cxx1112basic_stringIT_T0_T1_EEPKS5_RKS8_");
void ns_plus_cl(Str* result, const char*, const Str*) { set_empty(result); }
void ns_plus_ll(Str* result, const Str*, const Str*) SYM("_ZStplIcSt11char_traitsIcESaIcEENSt7__cxx1112basic_stringIT_T0_T1_EERKS8_SA_");
void ns_plus_ll(Str* result, const Str*, const Str*) { set_empty(result); }
}
