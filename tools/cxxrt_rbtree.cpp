// Red-black tree support functions of libstdc++ (src/c++98/tree.cc is not available as IR): re-implementation of the
// published algorithm (CLRS), with the libstdc++ node layout and header-node conventions.
#include <bits/stl_tree.h>
namespace std {
static _Rb_tree_node_base* local_increment(_Rb_tree_node_base* x) noexcept
{
  if (x->_M_right != nullptr) {
    x = x->_M_right;
    while (x->_M_left != nullptr)
      x = x->_M_left;
  } else {
    _Rb_tree_node_base* y = x->_M_parent;
    while (x == y->_M_right) {
      x = y;
      y = y->_M_parent;
    }
    if (x->_M_right != y)
      x = y;
  }
  return x;
}
static _Rb_tree_node_base* local_decrement(_Rb_tree_node_base* x) noexcept
{
  if (x->_M_color == _S_red && x->_M_parent->_M_parent == x)
    x = x->_M_right;
  else if (x->_M_left != nullptr) {
    _Rb_tree_node_base* y = x->_M_left;
    while (y->_M_right != nullptr)
      y = y->_M_right;
    x = y;
  } else {
    _Rb_tree_node_base* y = x->_M_parent;
    while (x == y->_M_left) {
      x = y;
      y = y->_M_parent;
    }
    x = y;
  }
  return x;
}
_Rb_tree_node_base* _Rb_tree_increment(_Rb_tree_node_base* x) throw() { return local_increment(x); }
const _Rb_tree_node_base* _Rb_tree_increment(const _Rb_tree_node_base* x) throw() { return local_increment(const_cast<_Rb_tree_node_base*>(x)); }
_Rb_tree_node_base* _Rb_tree_decrement(_Rb_tree_node_base* x) throw() { return local_decrement(x); }
const _Rb_tree_node_base* _Rb_tree_decrement(const _Rb_tree_node_base* x) throw() { return local_decrement(const_cast<_Rb_tree_node_base*>(x)); }

static void rotate_left(_Rb_tree_node_base* const x, _Rb_tree_node_base*& root)
{
  _Rb_tree_node_base* const y = x->_M_right;
  x->_M_right                 = y->_M_left;
  if (y->_M_left != nullptr)
    y->_M_left->_M_parent = x;
  y->_M_parent = x->_M_parent;
  if (x == root)
    root = y;
  else if (x == x->_M_parent->_M_left)
    x->_M_parent->_M_left = y;
  else
    x->_M_parent->_M_right = y;
  y->_M_left   = x;
  x->_M_parent = y;
}
static void rotate_right(_Rb_tree_node_base* const x, _Rb_tree_node_base*& root)
{
  _Rb_tree_node_base* const y = x->_M_left;
  x->_M_left                  = y->_M_right;
  if (y->_M_right != nullptr)
    y->_M_right->_M_parent = x;
  y->_M_parent = x->_M_parent;
  if (x == root)
    root = y;
  else if (x == x->_M_parent->_M_right)
    x->_M_parent->_M_right = y;
  else
    x->_M_parent->_M_left = y;
  y->_M_right  = x;
  x->_M_parent = y;
}
void _Rb_tree_insert_and_rebalance(const bool insert_left, _Rb_tree_node_base* x, _Rb_tree_node_base* p, _Rb_tree_node_base& header) throw()
{
  _Rb_tree_node_base*& root = header._M_parent;
  x->_M_parent = p;
  x->_M_left   = nullptr;
  x->_M_right  = nullptr;
  x->_M_color  = _S_red;
  if (insert_left) {
    p->_M_left = x; // also makes leftmost = x when p == &header
    if (p == &header) {
      header._M_parent = x;
      header._M_right  = x;
    } else if (p == header._M_left)
      header._M_left = x; // maintain leftmost pointing to min node
  } else {
    p->_M_right = x;
    if (p == header._M_right)
      header._M_right = x; // maintain rightmost pointing to max node
  }
  while (x != root && x->_M_parent->_M_color == _S_red) {
    _Rb_tree_node_base* const xpp = x->_M_parent->_M_parent;
    if (x->_M_parent == xpp->_M_left) {
      _Rb_tree_node_base* const y = xpp->_M_right;
      if (y && y->_M_color == _S_red) {
        x->_M_parent->_M_color = _S_black;
        y->_M_color            = _S_black;
        xpp->_M_color          = _S_red;
        x                      = xpp;
      } else {
        if (x == x->_M_parent->_M_right) {
          x = x->_M_parent;
          rotate_left(x, root);
        }
        x->_M_parent->_M_color = _S_black;
        xpp->_M_color          = _S_red;
        rotate_right(xpp, root);
      }
    } else {
      _Rb_tree_node_base* const y = xpp->_M_left;
      if (y && y->_M_color == _S_red) {
        x->_M_parent->_M_color = _S_black;
        y->_M_color            = _S_black;
        xpp->_M_color          = _S_red;
        x                      = xpp;
      } else {
        if (x == x->_M_parent->_M_left) {
          x = x->_M_parent;
          rotate_right(x, root);
        }
        x->_M_parent->_M_color = _S_black;
        xpp->_M_color          = _S_red;
        rotate_left(xpp, root);
      }
    }
  }
  root->_M_color = _S_black;
}
_Rb_tree_node_base* _Rb_tree_rebalance_for_erase(_Rb_tree_node_base* const z, _Rb_tree_node_base& header) throw()
{
  _Rb_tree_node_base*& root      = header._M_parent;
  _Rb_tree_node_base*& leftmost  = header._M_left;
  _Rb_tree_node_base*& rightmost = header._M_right;
  _Rb_tree_node_base* y          = z;
  _Rb_tree_node_base* x          = nullptr;
  _Rb_tree_node_base* x_parent   = nullptr;
  if (y->_M_left == nullptr)
    x = y->_M_right;
  else if (y->_M_right == nullptr)
    x = y->_M_left;
  else {
    y = y->_M_right;
    while (y->_M_left != nullptr)
      y = y->_M_left;
    x = y->_M_right;
  }
  if (y != z) { // relink y in place of z
    z->_M_left->_M_parent = y;
    y->_M_left            = z->_M_left;
    if (y != z->_M_right) {
      x_parent = y->_M_parent;
      if (x)
        x->_M_parent = y->_M_parent;
      y->_M_parent->_M_left  = x;
      y->_M_right            = z->_M_right;
      z->_M_right->_M_parent = y;
    } else
      x_parent = y;
    if (root == z)
      root = y;
    else if (z->_M_parent->_M_left == z)
      z->_M_parent->_M_left = y;
    else
      z->_M_parent->_M_right = y;
    y->_M_parent = z->_M_parent;
    std::swap(y->_M_color, z->_M_color);
    y = z;
  } else {
    x_parent = y->_M_parent;
    if (x)
      x->_M_parent = y->_M_parent;
    if (root == z)
      root = x;
    else if (z->_M_parent->_M_left == z)
      z->_M_parent->_M_left = x;
    else
      z->_M_parent->_M_right = x;
    if (leftmost == z) {
      if (z->_M_right == nullptr)
        leftmost = z->_M_parent;
      else {
        _Rb_tree_node_base* m = x;
        while (m->_M_left != nullptr)
          m = m->_M_left;
        leftmost = m;
      }
    }
    if (rightmost == z) {
      if (z->_M_left == nullptr)
        rightmost = z->_M_parent;
      else {
        _Rb_tree_node_base* m = x;
        while (m->_M_right != nullptr)
          m = m->_M_right;
        rightmost = m;
      }
    }
  }
  if (y->_M_color != _S_red) {
    while (x != root && (x == nullptr || x->_M_color == _S_black))
      if (x == x_parent->_M_left) {
        _Rb_tree_node_base* w = x_parent->_M_right;
        if (w->_M_color == _S_red) {
          w->_M_color        = _S_black;
          x_parent->_M_color = _S_red;
          rotate_left(x_parent, root);
          w = x_parent->_M_right;
        }
        if ((w->_M_left == nullptr || w->_M_left->_M_color == _S_black) && (w->_M_right == nullptr || w->_M_right->_M_color == _S_black)) {
          w->_M_color = _S_red;
          x           = x_parent;
          x_parent    = x_parent->_M_parent;
        } else {
          if (w->_M_right == nullptr || w->_M_right->_M_color == _S_black) {
            w->_M_left->_M_color = _S_black;
            w->_M_color          = _S_red;
            rotate_right(w, root);
            w = x_parent->_M_right;
          }
          w->_M_color        = x_parent->_M_color;
          x_parent->_M_color = _S_black;
          if (w->_M_right)
            w->_M_right->_M_color = _S_black;
          rotate_left(x_parent, root);
          break;
        }
      } else {
        _Rb_tree_node_base* w = x_parent->_M_left;
        if (w->_M_color == _S_red) {
          w->_M_color        = _S_black;
          x_parent->_M_color = _S_red;
          rotate_right(x_parent, root);
          w = x_parent->_M_left;
        }
        if ((w->_M_right == nullptr || w->_M_right->_M_color == _S_black) && (w->_M_left == nullptr || w->_M_left->_M_color == _S_black)) {
          w->_M_color = _S_red;
          x           = x_parent;
          x_parent    = x_parent->_M_parent;
        } else {
          if (w->_M_left == nullptr || w->_M_left->_M_color == _S_black) {
            w->_M_right->_M_color = _S_black;
            w->_M_color           = _S_red;
            rotate_left(w, root);
            w = x_parent->_M_left;
          }
          w->_M_color        = x_parent->_M_color;
          x_parent->_M_color = _S_black;
          if (w->_M_left)
            w->_M_left->_M_color = _S_black;
          rotate_right(x_parent, root);
          break;
        }
      }
    if (x)
      x->_M_color = _S_black;
  }
  return y;
}
} // namespace std
