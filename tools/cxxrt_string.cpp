// The out-of-line members of std::string are "extern template" in libstdc++'s headers, but their bodies are in the headers
// (basic_string.tcc): an explicit instantiation here gives the real libstdc++ code as IR instead of a hand-written model.
#include <string>
template class std::__cxx11::basic_string<char>;
extern "C" {
void __CPROVER_assume(bool);
void __CPROVER_assert(bool, const char*);
}
namespace std {
void __throw_logic_error(const char*) { __CPROVER_assert(false, "std::logic_error thrown"); __CPROVER_assume(false); __builtin_unreachable(); }
void __throw_out_of_range(const char*) { __CPROVER_assert(false, "std::out_of_range thrown"); __CPROVER_assume(false); __builtin_unreachable(); }
void __throw_invalid_argument(const char*) { __CPROVER_assert(false, "std::invalid_argument thrown"); __CPROVER_assume(false); __builtin_unreachable(); }
} // namespace std
