#!/usr/bin/env python3
"""Regenerates MANIFEST.json from props/*.py (claimed) and props/not_applicable.json."""
import importlib, json, os, sys
HERE = os.path.dirname(os.path.dirname(os.path.abspath(__file__)))
sys.path.insert(0, os.path.join(HERE, "lib")); sys.path.insert(0, os.path.join(HERE, "props"))
ids = sorted(f[:-3] for f in os.listdir(os.path.join(HERE, "props")) if f.startswith("C") and f.endswith(".py"))
checks = []
for i in ids:
    m = importlib.import_module(i)
    meta = m.META
    checks.append({
        "property_id": i,
        "quick_cmd": f"./check {i} quick",
        "thorough_cmd": f"./check {i} thorough",
        "evidence_file": f"evidence/{i}.json",
        "replay_cmd_template": f"./check {i} --replay {{path}}",
        "engine": "ll2c+cbmc",
        "level_claimed": {"category": "model_checking",
                          "text": meta.get("level_text", "Bounded symbolic execution (CBMC) of the real functions, translated from the LLVM IR of /repo's working tree; "
                                  "shapes enumerated, numeric inputs symbolic; holds for every value inside the stated bounds: " + meta["bounds"]),
                          "design_ref": "DESIGN.md section 5, " + i},
        "level_note": "Trusted: clang-14 -O1 IR, opt-14 passes, ll2c translator (validated per run against the compiled IR), CBMC 6.11 + back ends, cxxrt models, "
                      "the listed stubs: " + "; ".join(meta.get("stubs", [])) + ". Outside the claim: " + meta.get("outside", ""),
        "technique": meta.get("technique", "bounded symbolic execution of the real code (clang IR -> C -> CBMC SAT/SMT), inductive step from an arbitrary invariant state"),
    })
na = json.load(open(os.path.join(HERE, "props", "not_applicable.json")))
na = [x for x in na if x["property_id"] not in ids]
man = {
    "version": 1,
    "setup_cmd": "tools/setup.sh",
    "hooks": {"guard": "SIMGRID_VERIF", "enable": "harnesses are compiled with -DSIMGRID_VERIF by lib/vf.py (no build of /repo with hooks is needed)",
              "baseline_off_cmd": "ctest --test-dir /repo/_build -j8 --timeout 900", "source_commits": json.load(open(os.path.join(HERE, "props", "hook_commits.json"))), "add_only": True},
    "engines": [{"name": "ll2c+cbmc", "path": "lib/vf.py", "serves_properties": ids,
                 "kind_free_text": "real C++ -> clang-14 LLVM IR -> opt-14 normalisation -> C (tools/ll2c.cpp) -> CBMC 6.11 (minisat/cadical/kissat/z3/cvc5); witness twin; native replay of counterexamples"}],
    "checks": checks,
    "notes": "Exit codes of ./check: 0 held, 1 VIOLATION (replay-confirmed), 2 INCONCLUSIVE (cap/bound hit), 3 ERROR (machinery: build, vacuous harness, unconfirmed counterexample).",
    "not_applicable": na,
}
json.dump(man, open(os.path.join(HERE, "MANIFEST.json"), "w"), indent=1)
print(f"{len(checks)} checks, {len(na)} not applicable")
