// ll2c: translate an (already normalised) LLVM-14 IR module into plain C that CBMC's C front end accepts.
// Typed translation: every LLVM type gets a C type name; GEPs become member/index expressions.
// Requires: no invoke/landingpad (run opt -passes=lowerinvoke), no vectors (scalarizer), no atomicrmw (loweratomic).
#include "llvm/Analysis/ValueTracking.h"
#include "llvm/IR/Constants.h"
#include "llvm/IR/DataLayout.h"
#include "llvm/IR/GetElementPtrTypeIterator.h"
#include "llvm/IR/IRBuilder.h"
#include "llvm/IR/InlineAsm.h"
#include "llvm/IR/InstrTypes.h"
#include "llvm/IR/Instructions.h"
#include "llvm/IR/IntrinsicInst.h"
#include "llvm/IR/LLVMContext.h"
#include "llvm/IR/LegacyPassManager.h"
#include "llvm/Pass.h"
#include "llvm/Transforms/IPO.h"
#include "llvm/IR/Module.h"
#include "llvm/IR/Operator.h"
#include "llvm/IRReader/IRReader.h"
#include "llvm/Support/SourceMgr.h"
#include "llvm/Support/raw_ostream.h"
#include <cmath>
#include <map>
#include <set>
#include <sstream>
#include <string>
#include <vector>
using namespace llvm;

static void die(const Twine& m)
{
  errs() << "ll2c: " << m << "\n";
  exit(2);
}

struct Tr {
  Module& M;
  const DataLayout& DL;
  std::map<Type*, std::string> tyname;
  std::map<const Value*, std::string> vname;
  std::map<const GlobalValue*, std::string> gname;
  std::set<std::string> used_names;
  unsigned next_id = 0;
  std::string body; // current function body
  std::set<std::string> root_names;
  std::map<std::string, std::string> mem_helpers;
  std::vector<std::string> undefined;
  bool need_realloc = false;
  std::string entry;

  explicit Tr(Module& m) : M(m), DL(m.getDataLayout()) {}

  // ---------- types ----------
  static std::string sanitize(StringRef s)
  {
    std::string r;
    for (char c : s)
      r += (isalnum((unsigned char)c) || c == '_') ? c : '_';
    if (r.empty() || isdigit((unsigned char)r[0]))
      r = "_" + r;
    return r;
  }
  std::string ity(unsigned w, bool sgn = false)
  {
    std::string u = sgn ? "signed " : "unsigned ";
    if (w == 1)
      return sgn ? "signed char" : "_Bool";
    if (w == 8)
      return u + "char";
    if (w == 16)
      return u + "short";
    if (w == 32)
      return u + "int";
    if (w == 64)
      return u + "long";
    if (w == 128)
      return u + "__int128";
    return (sgn ? "signed __CPROVER_bitvector[" : "unsigned __CPROVER_bitvector[") + std::to_string(w) + "]";
  }
  std::string ty(Type* T)
  {
    auto it = tyname.find(T);
    if (it != tyname.end())
      return it->second;
    std::string r;
    if (T->isVoidTy())
      r = "void";
    else if (auto* IT = dyn_cast<IntegerType>(T))
      r = ity(IT->getBitWidth());
    else if (T->isFloatTy())
      r = "float";
    else if (T->isDoubleTy())
      r = "double";
    else if (T->isX86_FP80Ty())
      r = "long double";
    else if (auto* PT = dyn_cast<PointerType>(T)) {
      Type* E = PT->getPointerElementType();
      if (E->isVoidTy() || E->isIntegerTy(8))
        r = "unsigned char*";
      else
        r = ty(E) + "*";
    } else if (auto* ST = dyn_cast<StructType>(T)) {
      std::string base = ST->hasName() ? sanitize(ST->getName()) : std::string("lit");
      if (base.size() > 40)
        base = base.substr(0, 40);
      r = "struct s" + std::to_string(next_id++) + "_" + base;
      all_aggr.push_back(T);
    } else if (auto* AT = dyn_cast<ArrayType>(T)) {
      r = "struct a" + std::to_string(next_id++) + "_" + std::to_string(AT->getNumElements());
      all_aggr.push_back(T);
    } else if (auto* VT = dyn_cast<FixedVectorType>(T)) { // residual vectors (e.g. complex helpers of compiler-rt): a struct around an array
      r = "struct vec" + std::to_string(next_id++) + "_" + std::to_string(VT->getNumElements());
      all_aggr.push_back(T);
    } else if (isa<FunctionType>(T)) {
      r = "fn" + std::to_string(next_id++);
      all_fn.push_back(cast<FunctionType>(T));
    } else {
      std::string s;
      raw_string_ostream os(s);
      T->print(os);
      die("unsupported type " + os.str());
    }
    tyname[T] = r;
    return r;
  }
  std::vector<Type*> all_aggr;
  std::vector<FunctionType*> all_fn;
  std::set<Type*> done;
  void define_fn(FunctionType* FT, raw_ostream& O)
  {
    if (!done.insert(FT).second)
      return;
    auto dep = [&](Type* P) {
      while (P->isPointerTy())
        P = P->getPointerElementType();
      if (auto* F2 = dyn_cast<FunctionType>(P))
        define_fn(F2, O);
    };
    dep(FT->getReturnType());
    for (Type* P : FT->params())
      dep(P);
    O << "typedef " << ty(FT->getReturnType()) << " " << tyname[FT] << "(";
    bool first = true;
    for (Type* P : FT->params()) {
      O << (first ? "" : ", ") << ty(P);
      first = false;
    }
    if (FT->isVarArg())
      O << (first ? "" : ", ...");
    else if (first)
      O << "void";
    O << ");\n";
  }
  void define_aggr(Type* T, raw_ostream& O)
  {
    if (!T->isStructTy() && !T->isArrayTy() && !T->isVectorTy())
      return;
    if (!done.insert(T).second)
      return;
    if (auto* VT = dyn_cast<FixedVectorType>(T)) {
      O << tyname[T] << " { " << ty(VT->getElementType()) << " a[" << VT->getNumElements() << "]; };\n";
      return;
    }
    if (auto* ST = dyn_cast<StructType>(T)) {
      if (ST->isOpaque())
        return;
      for (Type* E : ST->elements())
        define_aggr(E, O);
      O << tyname[T] << " {";
      unsigned i = 0;
      for (Type* E : ST->elements())
        O << " " << ty(E) << " f" << i++ << ";";
      if (ST->getNumElements() == 0)
        O << " char __empty[0];";
      O << " }" << (ST->isPacked() ? " __attribute__((packed))" : "") << ";\n";
      if (ST->getNumElements() > 0 && ST->isSized())
        O << "_Static_assert(sizeof(" << tyname[T] << ") == " << DL.getTypeAllocSize(T) << ", \"layout\");\n";
    } else {
      auto* AT = cast<ArrayType>(T);
      define_aggr(AT->getElementType(), O);
      uint64_t n = AT->getNumElements();
      O << tyname[T] << " { " << ty(AT->getElementType()) << " a[" << n << "]; };\n";
    }
  }
  void emit_types(raw_ostream& O)
  {
    // close the set of named types
    for (size_t i = 0; i < all_aggr.size() || false; i++) {
      Type* T = all_aggr[i];
      if (auto* ST = dyn_cast<StructType>(T)) {
        if (!ST->isOpaque())
          for (Type* E : ST->elements())
            ty(E);
      } else if (auto* VT = dyn_cast<FixedVectorType>(T))
        ty(VT->getElementType());
      else
        ty(cast<ArrayType>(T)->getElementType());
      if (i + 1 == all_aggr.size()) { // also close over function types discovered so far
        for (size_t j = 0; j < all_fn.size(); j++) {
          ty(all_fn[j]->getReturnType());
          for (Type* P : all_fn[j]->params())
            ty(P);
        }
      }
    }
    for (size_t j = 0; j < all_fn.size(); j++) {
      ty(all_fn[j]->getReturnType());
      for (Type* P : all_fn[j]->params())
        ty(P);
    }
    for (Type* T : all_aggr)
      O << tyname[T] << ";\n";
    for (size_t j = 0; j < all_fn.size(); j++)
      define_fn(all_fn[j], O);
    for (size_t i = 0; i < all_aggr.size(); i++)
      define_aggr(all_aggr[i], O);
  }

  // ---------- names ----------
  std::string unique(std::string base)
  {
    std::string n = base;
    int k         = 0;
    while (used_names.count(n))
      n = base + "_" + std::to_string(++k);
    used_names.insert(n);
    return n;
  }
  std::string gn(const GlobalValue* G)
  {
    auto it = gname.find(G);
    if (it != gname.end())
      return it->second;
    std::string n = sanitize(G->getName());
    if (G->hasLocalLinkage() || n != G->getName().str())
      n = unique(n);
    else
      used_names.insert(n);
    gname[G] = n;
    return n;
  }

  // ---------- constants ----------
  std::string fpconst(const APFloat& F, Type* T)
  {
    if (F.isNaN())
      return T->isFloatTy() ? "__builtin_nanf(\"\")" : "__builtin_nan(\"\")";
    if (F.isInfinity())
      return std::string(F.isNegative() ? "(-" : "(") + (T->isFloatTy() ? "__builtin_inff()" : "__builtin_inf()") + ")";
    char buf[64];
    if (T->isFloatTy())
      snprintf(buf, sizeof buf, "%af", (double)F.convertToFloat());
    else if (T->isDoubleTy())
      snprintf(buf, sizeof buf, "%a", F.convertToDouble());
    else {
      bool li;
      APFloat G = F;
      G.convert(APFloat::IEEEdouble(), APFloat::rmNearestTiesToEven, &li);
      snprintf(buf, sizeof buf, "%aL", G.convertToDouble());
    }
    return std::string("(") + buf + ")";
  }
  // init=true: we are inside a C initializer (braces allowed without compound literal)
  std::string cst(const Constant* C, bool init = false)
  {
    Type* T = C->getType();
    if (auto* CI = dyn_cast<ConstantInt>(C)) {
      unsigned w = CI->getBitWidth();
      if (w <= 64)
        return "((" + ty(T) + ")" + std::to_string(CI->getZExtValue()) + "UL)";
      if (w == 128) {
        const APInt& V = CI->getValue();
        uint64_t lo = V.getLoBits(64).getZExtValue(), hi = V.getHiBits(64).getZExtValue();
        return "((((unsigned __int128)" + std::to_string(hi) + "UL)<<64)|" + std::to_string(lo) + "UL)";
      }
      die("wide constant int");
    }
    if (auto* CF = dyn_cast<ConstantFP>(C))
      return fpconst(CF->getValueAPF(), T);
    if (isa<ConstantPointerNull>(C))
      return "((" + ty(T) + ")0)";
    if (isa<UndefValue>(C) || isa<ConstantAggregateZero>(C)) { // undef/poison modelled as zero
      if (T->isStructTy() || T->isArrayTy() || T->isVectorTy())
        return init ? "{0}" : "((" + ty(T) + "){0})";
      if (T->isFloatingPointTy())
        return "((" + ty(T) + ")0.0)";
      return "((" + ty(T) + ")0)";
    }
    if (auto* GA = dyn_cast<GlobalAlias>(C))
      return "((" + ty(T) + ")" + cst(GA->getAliasee()) + ")";
    if (auto* F = dyn_cast<Function>(C))
      return "(&" + gn(F) + ")";
    if (auto* GV = dyn_cast<GlobalVariable>(C))
      return "(&" + gn(GV) + ")";
    if (auto* CS = dyn_cast<ConstantStruct>(C)) {
      std::string s = init ? "{" : "((" + ty(T) + "){";
      for (unsigned i = 0; i < CS->getNumOperands(); i++)
        s += (i ? ", " : " ") + cst(CS->getOperand(i), true);
      return s + (init ? " }" : " })");
    }
    if (auto* CA = dyn_cast<ConstantArray>(C)) {
      std::string s = init ? "{{" : "((" + ty(T) + "){{";
      for (unsigned i = 0; i < CA->getNumOperands(); i++)
        s += (i ? ", " : " ") + cst(CA->getOperand(i), true);
      return s + (init ? " }}" : " }})");
    }
    if (auto* CD = dyn_cast<ConstantDataArray>(C)) {
      std::string s = init ? "{{" : "((" + ty(T) + "){{";
      for (unsigned i = 0; i < CD->getNumElements(); i++)
        s += (i ? ", " : " ") + cst(CD->getElementAsConstant(i), true);
      return s + (init ? " }}" : " }})");
    }
    if (auto* CE = dyn_cast<ConstantExpr>(C)) {
      Instruction* I = const_cast<ConstantExpr*>(CE)->getAsInstruction();
      std::string s  = expr(I);
      I->deleteValue();
      return s;
    }
    if (isa<BlockAddress>(C))
      die("blockaddress");
    std::string s;
    raw_string_ostream os(s);
    C->print(os);
    die("unsupported constant " + os.str());
    return "";
  }

  // ---------- values ----------
  std::string val(const Value* V)
  {
    if (auto* C = dyn_cast<Constant>(V))
      return cst(C);
    auto it = vname.find(V);
    if (it != vname.end())
      return it->second;
    if (isa<MetadataAsValue>(V))
      return "0";
    std::string s;
    raw_string_ostream os(s);
    V->print(os);
    die("unnamed value " + os.str());
    return "";
  }
  std::string sval(const Value* V) // as signed
  {
    unsigned w = V->getType()->getIntegerBitWidth();
    if (w == 1)
      return "((signed char)-(signed char)" + val(V) + ")";
    return "((" + ity(w, true) + ")" + val(V) + ")";
  }
  std::string cty(Type* T) // computation type avoiding int promotion of narrow unsigned
  {
    unsigned w = T->getIntegerBitWidth();
    return w < 32 ? "unsigned int" : ty(T);
  }
  std::string idx(const Value* V) // GEP index, sign-extended to 64 bits
  {
    if (auto* CI = dyn_cast<ConstantInt>(V))
      return std::to_string(CI->getSExtValue()) + "L";
    return "(long)" + sval(V);
  }

  std::string gep_expr(const GEPOperator* G)
  {
    std::string e = val(G->getPointerOperand());
    Type* srcTy   = G->getSourceElementType();
    // the C type of the pointer operand may be "unsigned char*" for i8*: consistent with ty()
    auto GTI      = gep_type_begin(G);
    bool first    = true;
    bool allzero  = true;
    for (auto I = G->idx_begin(); I != G->idx_end(); ++I, ++GTI) {
      const Value* ix = *I;
      if (first) {
        auto* CI = dyn_cast<ConstantInt>(ix);
        if (CI && CI->isZero())
          e = "(*" + e + ")";
        else {
          e       = "(" + e + ")[" + idx(ix) + "]";
          allzero = false;
        }
        first = false;
        continue;
      }
      if (StructType* ST = GTI.getStructTypeOrNull()) {
        unsigned k = cast<ConstantInt>(ix)->getZExtValue();
        e += ".f" + std::to_string(k);
      } else {
        e += ".a[" + idx(ix) + "]";
      }
    }
    (void)srcTy;
    (void)allzero;
    return "(&" + e + ")";
  }

  std::string bitcast_expr(const Value* Src, Type* DT)
  {
    Type* S = Src->getType();
    if (S->isPointerTy() && DT->isPointerTy())
      return "((" + ty(DT) + ")" + val(Src) + ")";
    if (S == DT)
      return val(Src);
    // scalar reinterpretation through a union
    return "(((union { " + ty(S) + " s; " + ty(DT) + " d; }){ .s = " + val(Src) + " }).d)";
  }

  std::string icmp_expr(CmpInst::Predicate P, const Value* A, const Value* B)
  {
    bool ptr = A->getType()->isPointerTy();
    std::string a = val(A), b = val(B);
    if (ptr && A->getType() != B->getType())
      b = "((" + ty(A->getType()) + ")" + b + ")";
    auto sg = [&](const Value* V) { return ptr ? "((long)" + val(V) + ")" : sval(V); };
    switch (P) {
      case CmpInst::ICMP_EQ:
        return "(" + a + " == " + b + ")";
      case CmpInst::ICMP_NE:
        return "(" + a + " != " + b + ")";
      case CmpInst::ICMP_UGT:
        return "(" + a + " > " + b + ")";
      case CmpInst::ICMP_UGE:
        return "(" + a + " >= " + b + ")";
      case CmpInst::ICMP_ULT:
        return "(" + a + " < " + b + ")";
      case CmpInst::ICMP_ULE:
        return "(" + a + " <= " + b + ")";
      case CmpInst::ICMP_SGT:
        return "(" + sg(A) + " > " + sg(B) + ")";
      case CmpInst::ICMP_SGE:
        return "(" + sg(A) + " >= " + sg(B) + ")";
      case CmpInst::ICMP_SLT:
        return "(" + sg(A) + " < " + sg(B) + ")";
      case CmpInst::ICMP_SLE:
        return "(" + sg(A) + " <= " + sg(B) + ")";
      default:
        die("icmp pred");
    }
    return "";
  }
  std::string fcmp_expr(CmpInst::Predicate P, const Value* A, const Value* B)
  {
    std::string a = val(A), b = val(B);
    switch (P) {
      case CmpInst::FCMP_FALSE:
        return "0";
      case CmpInst::FCMP_TRUE:
        return "1";
      case CmpInst::FCMP_OEQ:
        return "(" + a + " == " + b + ")";
      case CmpInst::FCMP_OGT:
        return "(" + a + " > " + b + ")";
      case CmpInst::FCMP_OGE:
        return "(" + a + " >= " + b + ")";
      case CmpInst::FCMP_OLT:
        return "(" + a + " < " + b + ")";
      case CmpInst::FCMP_OLE:
        return "(" + a + " <= " + b + ")";
      case CmpInst::FCMP_ONE:
        return "(" + a + " < " + b + " || " + a + " > " + b + ")";
      case CmpInst::FCMP_ORD:
        return "(" + a + " == " + a + " && " + b + " == " + b + ")";
      case CmpInst::FCMP_UNO:
        return "(" + a + " != " + a + " || " + b + " != " + b + ")";
      case CmpInst::FCMP_UEQ:
        return "(!(" + a + " < " + b + " || " + a + " > " + b + "))";
      case CmpInst::FCMP_UGT:
        return "(!(" + a + " <= " + b + "))";
      case CmpInst::FCMP_UGE:
        return "(!(" + a + " < " + b + "))";
      case CmpInst::FCMP_ULT:
        return "(!(" + a + " >= " + b + "))";
      case CmpInst::FCMP_ULE:
        return "(!(" + a + " > " + b + "))";
      case CmpInst::FCMP_UNE:
        return "(" + a + " != " + b + ")";
      default:
        die("fcmp pred");
    }
    return "";
  }

  // expression for a (non-call, non-phi, non-terminator) instruction or constant-expr-as-instruction
  std::string expr(const Instruction* I)
  {
    Type* T        = I->getType();
    std::string t  = T->isVoidTy() ? "" : ty(T);
    unsigned op    = I->getOpcode();
    auto A         = [&](unsigned i) { return val(I->getOperand(i)); };
    auto bin_u     = [&](const char* o) {
      if (T->isIntegerTy(1))
        return "((_Bool)(" + A(0) + " " + o + " " + A(1) + "))";
      std::string c = cty(T);
      return "((" + t + ")((" + c + ")" + A(0) + " " + o + " (" + c + ")" + A(1) + "))";
    };
    switch (op) {
      case Instruction::Add:
        return bin_u("+");
      case Instruction::Sub: {
        // pointer difference: keep it a pointer subtraction (CBMC folds it for pointers into the same object; casts to integers are opaque)
        auto* P0 = dyn_cast<PtrToIntOperator>(I->getOperand(0));
        auto* P1 = dyn_cast<PtrToIntOperator>(I->getOperand(1));
        if (P0 && P1 && T->isIntegerTy(64))
          return "((" + t + ")LL2C_PDIFF(" + val(P0->getOperand(0)) + ", " + val(P1->getOperand(0)) + "))";
        return bin_u("-");
      }
      case Instruction::Mul:
        return bin_u("*");
      case Instruction::UDiv:
        return bin_u("/");
      case Instruction::URem:
        return bin_u("%");
      case Instruction::And:
        return bin_u("&");
      case Instruction::Or:
        return bin_u("|");
      case Instruction::Xor:
        return bin_u("^");
      case Instruction::SDiv:
        return "((" + t + ")(" + sval(I->getOperand(0)) + " / " + sval(I->getOperand(1)) + "))";
      case Instruction::SRem:
        return "((" + t + ")(" + sval(I->getOperand(0)) + " % " + sval(I->getOperand(1)) + "))";
      case Instruction::Shl:
        return "((" + t + ")((" + cty(T) + ")" + A(0) + " << " + A(1) + "))";
      case Instruction::LShr:
        return "((" + t + ")((" + cty(T) + ")" + A(0) + " >> " + A(1) + "))";
      case Instruction::AShr:
        return "((" + t + ")(" + sval(I->getOperand(0)) + " >> " + A(1) + "))";
      case Instruction::FAdd:
        return "(" + A(0) + " + " + A(1) + ")";
      case Instruction::FSub:
        return "(" + A(0) + " - " + A(1) + ")";
      case Instruction::FMul:
        return "(" + A(0) + " * " + A(1) + ")";
      case Instruction::FDiv:
        return "(" + A(0) + " / " + A(1) + ")";
      case Instruction::FRem:
        return std::string(T->isFloatTy() ? "fmodf(" : "fmod(") + A(0) + ", " + A(1) + ")";
      case Instruction::FNeg:
        return "(-" + A(0) + ")";
      case Instruction::ICmp:
        return icmp_expr(cast<CmpInst>(I)->getPredicate(), I->getOperand(0), I->getOperand(1));
      case Instruction::FCmp:
        return fcmp_expr(cast<CmpInst>(I)->getPredicate(), I->getOperand(0), I->getOperand(1));
      case Instruction::Select:
        return "(" + A(0) + " ? " + A(1) + " : " + A(2) + ")";
      case Instruction::Trunc:
        if (T->isIntegerTy(1))
          return "((_Bool)(" + A(0) + " & 1))";
        return "((" + t + ")" + A(0) + ")";
      case Instruction::ZExt:
        return "((" + t + ")" + A(0) + ")";
      case Instruction::SExt:
        return "((" + t + ")" + sval(I->getOperand(0)) + ")";
      case Instruction::FPToUI:
      case Instruction::UIToFP:
      case Instruction::FPTrunc:
      case Instruction::FPExt:
        return "((" + t + ")" + A(0) + ")";
      case Instruction::FPToSI:
        return "((" + t + ")(" + ity(T->getIntegerBitWidth(), true) + ")" + A(0) + ")";
      case Instruction::SIToFP:
        return "((" + t + ")" + sval(I->getOperand(0)) + ")";
      case Instruction::PtrToInt:
        return "((" + t + ")(unsigned long)" + A(0) + ")";
      case Instruction::IntToPtr:
        return "((" + t + ")(unsigned long)" + A(0) + ")";
      case Instruction::BitCast:
      case Instruction::AddrSpaceCast:
        return bitcast_expr(I->getOperand(0), T);
      case Instruction::GetElementPtr:
        return gep_expr(cast<GEPOperator>(I));
      case Instruction::Load:
        if (auto* SEL = dyn_cast<SelectInst>(I->getOperand(0)))
          return "(" + val(SEL->getCondition()) + " ? *" + val(SEL->getTrueValue()) + " : *" + val(SEL->getFalseValue()) + ")";
        return "(*" + A(0) + ")";
      case Instruction::Freeze:
        return A(0);
      case Instruction::ExtractElement:
        return "(" + A(0) + ".a[" + A(1) + "])";
      case Instruction::ExtractValue: {
        auto* EV      = cast<ExtractValueInst>(I);
        std::string e = A(0);
        Type* cur     = EV->getAggregateOperand()->getType();
        for (unsigned k : EV->indices()) {
          if (cur->isStructTy()) {
            e += ".f" + std::to_string(k);
            cur = cast<StructType>(cur)->getElementType(k);
          } else {
            e += ".a[" + std::to_string(k) + "]";
            cur = cast<ArrayType>(cur)->getElementType();
          }
        }
        return "(" + e + ")";
      }
      default:
        break;
    }
    std::string s;
    raw_string_ostream os(s);
    I->print(os);
    die("unsupported instruction " + os.str());
    return "";
  }

  // ---------- typed memory operations ----------
  // strips casts and constant GEPs: returns the base pointer value, the constant byte offset and the pointee type of the base
  const Value* resolve_base(const Value* P, uint64_t& off, Type*& T)
  {
    off = 0;
    T   = nullptr;
    for (int guard = 0; guard < 16; guard++) {
      if (auto* BC = dyn_cast<BitCastOperator>(P)) {
        P = BC->getOperand(0);
        continue;
      }
      if (auto* G = dyn_cast<GEPOperator>(P)) {
        APInt O(64, 0);
        if (!G->accumulateConstantOffset(DL, O) || O.isNegative())
          break;
        off += O.getZExtValue();
        P = G->getPointerOperand();
        continue;
      }
      break;
    }
    if (isa<Constant>(P) && !isa<GlobalVariable>(P))
      return P;
    if (auto* PT = dyn_cast<PointerType>(P->getType())) {
      Type* E = PT->getPointerElementType();
      if (E->isSized() && !E->isIntegerTy(8) && !E->isFunctionTy())
        T = E;
      else if (E->isIntegerTy(8) && isa<Instruction>(P)) {
        // raw i8* (typically the result of operator new / malloc): use the largest typed view taken of it
        uint64_t best = 0;
        for (const User* U : P->users())
          if (auto* BC = dyn_cast<BitCastInst>(U))
            if (auto* BT = dyn_cast<PointerType>(BC->getType())) {
              Type* C = BT->getPointerElementType();
              if (C->isSized() && !C->isIntegerTy(8) && !C->isFunctionTy() && DL.getTypeAllocSize(C) > best) {
                best   = DL.getTypeAllocSize(C);
                viewT  = C;
              }
            }
        if (best)
          T = viewT;
      }
    }
    return P;
  }
  Type* viewT = nullptr;
  // lvalue expression for *P viewed as T
  std::string deref_as(const Value* P, Type* T)
  {
    if (P->getType()->getPointerElementType() == T)
      return "(*" + val(P) + ")";
    return "(*(" + ty(T) + "*)" + val(P) + ")";
  }
  // zero (src empty) or copy the byte range [off, off+n) of an lvalue of type T, field by field; false if a scalar is only partly covered
  bool range_op(const std::string& dst, const std::string& src, Type* T, uint64_t off, uint64_t n, std::vector<std::string>& out)
  {
    uint64_t size = DL.getTypeAllocSize(T);
    if (n == 0)
      return true;
    if (off + n > size)
      return false;
    if (off == 0 && n == size) {
      if (src.empty()) {
        if (T->isStructTy() || T->isArrayTy())
          out.push_back(dst + " = (" + ty(T) + "){0}");
        else if (T->isFloatingPointTy())
          out.push_back(dst + " = 0.0");
        else
          out.push_back(dst + " = (" + ty(T) + ")0");
      } else
        out.push_back(dst + " = " + src);
      return true;
    }
    if (auto* ST = dyn_cast<StructType>(T)) {
      const StructLayout* SL = DL.getStructLayout(ST);
      for (unsigned i = 0; i < ST->getNumElements(); i++) {
        uint64_t fo = SL->getElementOffset(i), fs = DL.getTypeAllocSize(ST->getElementType(i));
        uint64_t lo = std::max(off, fo), hi = std::min(off + n, fo + fs);
        if (lo >= hi)
          continue;
        std::string f = ".f" + std::to_string(i);
        if (!range_op(dst + f, src.empty() ? src : src + f, ST->getElementType(i), lo - fo, hi - lo, out))
          return false;
        if (out.size() > 512)
          return false;
      }
      return true;
    }
    if (auto* AT = dyn_cast<ArrayType>(T)) {
      uint64_t es = DL.getTypeAllocSize(AT->getElementType());
      if (es == 0)
        return false;
      for (uint64_t i = off / es; i < AT->getNumElements() && i * es < off + n; i++) {
        uint64_t lo = std::max(off, i * es), hi = std::min(off + n, (i + 1) * es);
        std::string f = ".a[" + std::to_string(i) + "]";
        if (!range_op(dst + f, src.empty() ? src : src + f, AT->getElementType(), lo - i * es, hi - lo, out))
          return false;
        if (out.size() > 512)
          return false;
      }
      return true;
    }
    return false; // scalar partly covered
  }

  // ---------- calls ----------
  static bool is_libc(StringRef n)
  {
    static const char* names[] = {"malloc", "free",   "calloc", "realloc", "memcpy", "memmove", "memset", "memcmp",
                                  "strlen", "strcmp", "strncmp", "strcpy", "strchr", "abort",  "exit",   "bcmp",
                                  "memchr", "strtod", "strtol", "strerror", "getpid", "close",  "fabs",   "floor",  "ceil",   "sqrt", "fmod", "fmodf", nullptr};
    for (const char** p = names; *p; p++)
      if (n == *p)
        return true;
    return false;
  }
  std::string call_expr(const CallBase* CB)
  {
    if (auto* IA = dyn_cast<InlineAsm>(CB->getCalledOperand())) {
      if (IA->getAsmString().empty())
        return ""; // compiler barrier
      die("unsupported inline asm: " + IA->getAsmString());
    }
    const Function* F = CB->getCalledFunction();
    Type* RT          = CB->getType();
    auto arg          = [&](unsigned i) { return val(CB->getArgOperand(i)); };
    if (F && F->isIntrinsic()) {
      switch (F->getIntrinsicID()) {
        case Intrinsic::memcpy:
        case Intrinsic::memmove:
        case Intrinsic::memset: {
          auto id          = F->getIntrinsicID();
          const char* base = id == Intrinsic::memcpy ? "memcpy" : id == Intrinsic::memmove ? "memmove" : "memset";
          if (auto* LEN = dyn_cast<ConstantInt>(CB->getArgOperand(2))) {
            // constant length: try a typed, field-wise translation (byte-wise models lose the values of pointers and vptrs in CBMC)
            uint64_t n = LEN->getZExtValue();
            std::vector<std::string> st;
            bool ok = false;
            if (n == 0)
              return "";
            if (id == Intrinsic::memset) {
              auto* CV = dyn_cast<ConstantInt>(CB->getArgOperand(1));
              uint64_t off;
              Type* RT2;
              const Value* B0 = resolve_base(CB->getArgOperand(0), off, RT2);
              if (CV && CV->isZero() && RT2)
                ok = range_op(deref_as(B0, RT2), "", RT2, off, n, st);
            } else {
              uint64_t o1, o2;
              Type *T1, *T2;
              const Value* B1 = resolve_base(CB->getArgOperand(0), o1, T1);
              const Value* B2 = resolve_base(CB->getArgOperand(1), o2, T2);
              if (T1 && T1 == T2 && o1 == o2)
                ok = range_op(deref_as(B1, T1), deref_as(B2, T2), T1, o1, n, st);
            }
            if (ok && !st.empty() && st.size() <= 512) {
              std::string r = "(";
              for (size_t i = 0; i < st.size(); i++)
                r += (i ? ", " : "") + st[i];
              return r + ")";
            }
            if (id != Intrinsic::memset) {
              // second chance: one side is (a cast of) a typed pointer whose pointee is exactly n bytes: a typed copy of one object, wherever it sits
              // (e.g. a vector element at a symbolic index); CBMC's byte-wise memcpy model over such objects produces enormous formulas
              for (unsigned k = 0; k < 2; k++) {
                const Value* P = CB->getArgOperand(k)->stripPointerCasts();
                auto* PT       = dyn_cast<PointerType>(P->getType());
                if (!PT)
                  continue;
                Type* E = PT->getPointerElementType();
                if (E->isSized() && !E->isIntegerTy(8) && !E->isFunctionTy() && DL.getTypeAllocSize(E) == n && DL.getTypeStoreSize(E) == n)
                  return "(*(" + ty(E) + "*)" + arg(0) + " = *(" + ty(E) + "*)" + arg(1) + ")";
              }
            }
            return std::string(base) + "(" + arg(0) + ", " + arg(1) + ", " + arg(2) + ")";
          }
          // symbolic length: typed, capacity-bounded element loop instead of CBMC's array-theory model
          Type* ET = nullptr;
          for (unsigned k = 0; k < (id == Intrinsic::memset ? 1u : 2u) && !ET; k++) {
            const Value* SV = CB->getArgOperand(k)->stripPointerCasts();
            Type* PT        = SV->getType()->getPointerElementType();
            if (PT->isIntegerTy(8) && isa<CallBase>(SV)) // a fresh chunk (operator new / malloc): typed by what its other users cast it to
              for (const User* U : SV->users())
                if (auto* BC = dyn_cast<BitCastInst>(U))
                  if (BC->getType()->isPointerTy() && !BC->getType()->getPointerElementType()->isIntegerTy(8) && BC->getType()->getPointerElementType()->isSized()) {
                    PT = BC->getType()->getPointerElementType();
                    break;
                  }
            bool zero_fill = false;
            if (id == Intrinsic::memset)
              if (auto* CV = dyn_cast<ConstantInt>(CB->getArgOperand(1)))
                zero_fill = CV->isZero();
            if (PT->isSized() && !PT->isIntegerTy(8) && (PT->isIntegerTy() || PT->isPointerTy() || PT->isFloatingPointTy() ||
                                                         id != Intrinsic::memset || (zero_fill && (PT->isStructTy() || PT->isArrayTy()))))
              ET = PT;
          }
          std::string et = ET ? ty(ET) : "unsigned char";
          std::string hn = std::string("ll2c_") + base + "_" + sanitize(et);
          if (!mem_helpers.count(hn)) {
            std::string h = "static void " + hn + "(" + et + "* d, ";
            if (id == Intrinsic::memset && ET && (ET->isStructTy() || ET->isArrayTy())) { // only reached for a zero fill: element-wise zero objects
              h += "unsigned char c, unsigned long nb) { unsigned long n = nb / sizeof(" + et +
                   "); __CPROVER_assert(n <= LL2C_MEMCAP, \"mem* length bound\"); static const " + et + " v = {0}; "
                   "for (unsigned long i = 0; i < n && i < LL2C_MEMCAP; i++) d[i] = v; }\n";
            } else if (id == Intrinsic::memset) {
              h += "unsigned char c, unsigned long nb) { unsigned long n = nb / sizeof(" + et +
                   "); __CPROVER_assert(n <= LL2C_MEMCAP, \"mem* length bound\"); " + et + " v; memset(&v, c, sizeof(v)); "
                   "for (unsigned long i = 0; i < n && i < LL2C_MEMCAP; i++) d[i] = v; }\n";
            } else {
              h += et + "* s, unsigned long nb) { unsigned long n = nb / sizeof(" + et +
                   "); __CPROVER_assert(n <= LL2C_MEMCAP, \"mem* length bound\"); ";
              if (id == Intrinsic::memmove)
                h += "if (LL2C_PLE(d, s)) { for (unsigned long i = 0; i < n && i < LL2C_MEMCAP; i++) d[i] = s[i]; } "
                     "else { for (unsigned long i = (n < LL2C_MEMCAP ? n : LL2C_MEMCAP); i > 0; i--) d[i - 1] = s[i - 1]; } }\n";
              else
                h += "for (unsigned long i = 0; i < n && i < LL2C_MEMCAP; i++) d[i] = s[i]; }\n";
            }
            mem_helpers[hn] = h;
          }
          if (id == Intrinsic::memset)
            return hn + "((" + et + "*)" + arg(0) + ", " + arg(1) + ", " + arg(2) + ")";
          return hn + "((" + et + "*)" + arg(0) + ", (" + et + "*)" + arg(1) + ", " + arg(2) + ")";
        }
        case Intrinsic::lifetime_start:
        case Intrinsic::lifetime_end:
        case Intrinsic::invariant_start:
        case Intrinsic::invariant_end:
        case Intrinsic::dbg_declare:
        case Intrinsic::dbg_value:
        case Intrinsic::dbg_label:
        case Intrinsic::assume:
        case Intrinsic::experimental_noalias_scope_decl:
        case Intrinsic::stackrestore:
        case Intrinsic::prefetch:
          return "";
        case Intrinsic::stacksave:
          return "((unsigned char*)0)";
        case Intrinsic::trap:
        case Intrinsic::ubsantrap:
          return "ll2c_trap()";
        case Intrinsic::expect:
        case Intrinsic::expect_with_probability:
          return arg(0);
        case Intrinsic::objectsize:
          return "((" + ty(RT) + ")-1L)";
        case Intrinsic::is_constant:
          return "((_Bool)0)";
        case Intrinsic::type_test:
          return "((_Bool)1)";
        case Intrinsic::fabs:
          return std::string(RT->isFloatTy() ? "fabsf(" : "fabs(") + arg(0) + ")";
        case Intrinsic::sqrt:
          return std::string(RT->isFloatTy() ? "sqrtf(" : "sqrt(") + arg(0) + ")";
        case Intrinsic::floor:
          return std::string(RT->isFloatTy() ? "floorf(" : "floor(") + arg(0) + ")";
        case Intrinsic::ceil:
          return std::string(RT->isFloatTy() ? "ceilf(" : "ceil(") + arg(0) + ")";
        case Intrinsic::trunc:
          return std::string(RT->isFloatTy() ? "truncf(" : "trunc(") + arg(0) + ")";
        case Intrinsic::round:
          return std::string(RT->isFloatTy() ? "roundf(" : "round(") + arg(0) + ")";
        case Intrinsic::fmuladd:
        case Intrinsic::fma:
          return "(" + arg(0) + " * " + arg(1) + " + " + arg(2) + ")";
        case Intrinsic::maxnum:
          return std::string(RT->isFloatTy() ? "fmaxf(" : "fmax(") + arg(0) + ", " + arg(1) + ")";
        case Intrinsic::minnum:
          return std::string(RT->isFloatTy() ? "fminf(" : "fmin(") + arg(0) + ", " + arg(1) + ")";
        case Intrinsic::umax:
          return "(" + arg(0) + " > " + arg(1) + " ? " + arg(0) + " : " + arg(1) + ")";
        case Intrinsic::umin:
          return "(" + arg(0) + " < " + arg(1) + " ? " + arg(0) + " : " + arg(1) + ")";
        case Intrinsic::smax:
          return "(" + sval(CB->getArgOperand(0)) + " > " + sval(CB->getArgOperand(1)) + " ? " + arg(0) + " : " +
                 arg(1) + ")";
        case Intrinsic::smin:
          return "(" + sval(CB->getArgOperand(0)) + " < " + sval(CB->getArgOperand(1)) + " ? " + arg(0) + " : " +
                 arg(1) + ")";
        case Intrinsic::abs:
          return "((" + ty(RT) + ")(" + sval(CB->getArgOperand(0)) + " < 0 ? -" + sval(CB->getArgOperand(0)) + " : " +
                 sval(CB->getArgOperand(0)) + "))";
        case Intrinsic::ctpop:
          return "((" + ty(RT) + ")__builtin_popcountl((unsigned long)" + arg(0) + "))";
        case Intrinsic::ctlz: {
          unsigned w = RT->getIntegerBitWidth();
          return "((" + ty(RT) + ")(" + arg(0) + " == 0 ? " + std::to_string(w) + " : __builtin_clzl((unsigned long)" +
                 arg(0) + ") - " + std::to_string(64 - w) + "))";
        }
        case Intrinsic::cttz: {
          unsigned w = RT->getIntegerBitWidth();
          return "((" + ty(RT) + ")(" + arg(0) + " == 0 ? " + std::to_string(w) + " : __builtin_ctzl((unsigned long)" +
                 arg(0) + ")))";
        }
        case Intrinsic::bswap: {
          unsigned w = RT->getIntegerBitWidth();
          return "((" + ty(RT) + ")__builtin_bswap" + std::to_string(w) + "(" + arg(0) + "))";
        }
        case Intrinsic::fshl:
        case Intrinsic::fshr: {
          unsigned w    = RT->getIntegerBitWidth();
          std::string W = std::to_string(w);
          std::string s = "(" + arg(2) + " % " + W + ")";
          std::string c = w < 32 ? "unsigned int" : ty(RT);
          if (F->getIntrinsicID() == Intrinsic::fshl)
            return "((" + ty(RT) + ")(" + s + " == 0 ? " + arg(0) + " : (((" + c + ")" + arg(0) + " << " + s + ") | ((" +
                   c + ")" + arg(1) + " >> (" + W + " - " + s + ")))))";
          return "((" + ty(RT) + ")(" + s + " == 0 ? " + arg(1) + " : (((" + c + ")" + arg(0) + " << (" + W + " - " + s +
                 ")) | ((" + c + ")" + arg(1) + " >> " + s + "))))";
        }
        case Intrinsic::uadd_with_overflow:
        case Intrinsic::usub_with_overflow:
        case Intrinsic::umul_with_overflow:
        case Intrinsic::sadd_with_overflow:
        case Intrinsic::ssub_with_overflow:
        case Intrinsic::smul_with_overflow: {
          auto id        = F->getIntrinsicID();
          bool sg        = id == Intrinsic::sadd_with_overflow || id == Intrinsic::ssub_with_overflow ||
                    id == Intrinsic::smul_with_overflow;
          const char* o  = (id == Intrinsic::uadd_with_overflow || id == Intrinsic::sadd_with_overflow)   ? "+"
                           : (id == Intrinsic::usub_with_overflow || id == Intrinsic::ssub_with_overflow) ? "-"
                                                                                                          : "*";
          const char* pn = o[0] == '+' ? "plus" : o[0] == '-' ? "minus" : "mult";
          Type* ET       = CB->getArgOperand(0)->getType();
          std::string a  = sg ? sval(CB->getArgOperand(0)) : arg(0);
          std::string b  = sg ? sval(CB->getArgOperand(1)) : arg(1);
          std::string c  = cty(ET);
          return "((" + ty(RT) + "){ (" + ty(ET) + ")((" + c + ")" + arg(0) + " " + o + " (" + c + ")" + arg(1) +
                 "), (_Bool)__CPROVER_overflow_" + pn + "(" + a + ", " + b + ") })";
        }
        default:
          die("unsupported intrinsic " + F->getName());
      }
    }
    if (F && F->getName() == "verif_witness")
      return "ll2c_witness()";
    if (F && F->getName() == "__CPROVER_assert") {
      StringRef str;
      std::string lit = "assertion";
      if (getConstantStringInfo(CB->getArgOperand(1), str))
        lit = str.str();
      for (char& c : lit)
        if (c == '"' || c == '\\' || c == '\n')
          c = ' ';
      return "__CPROVER_assert(" + arg(0) + ", \"" + lit + "\")";
    }
    if (F && F->isDeclaration() || (F && (F->getName() == "_Znwm" || F->getName() == "_Znam"))) {
      StringRef n = F->getName();
      bool is_new = n == "_Znwm" || n == "_Znam" || n == "malloc";
      if (is_new || n == "calloc") {
        // typed allocation: find the struct type the result is cast to, so that CBMC creates a typed object
        Type* ET = nullptr;
        const Value* SZ0 = CB->getArgOperand(is_new ? 0 : 1);
        for (const User* U : CB->users())
          if (auto* BC = dyn_cast<BitCastInst>(U))
            if (BC->getType()->isPointerTy() && BC->getType()->getPointerElementType()->isSized() &&
                !BC->getType()->getPointerElementType()->isIntegerTy(8)) {
              Type* C     = BC->getType()->getPointerElementType();
              uint64_t cs = DL.getTypeAllocSize(C);
              if (auto* CI = dyn_cast<ConstantInt>(SZ0)) {
                if (cs == CI->getZExtValue()) {
                  ET = C;
                  break;
                }
                if (!ET && cs && CI->getZExtValue() % cs == 0)
                  ET = C;
              } else if (!ET)
                ET = C;
            }
        if (!ET) // result stored through a location of type T** (viewed as i8**): the chunk holds T objects
          for (const User* U : CB->users())
            if (auto* ST = dyn_cast<StoreInst>(U))
              if (ST->getValueOperand() == CB)
                if (auto* BC = dyn_cast<BitCastOperator>(ST->getPointerOperand())) {
                  Type* S = BC->getOperand(0)->getType()->getPointerElementType();
                  if (S->isPointerTy() && S->getPointerElementType()->isSized() &&
                      !S->getPointerElementType()->isIntegerTy(8)) {
                    ET = S->getPointerElementType();
                    break;
                  }
                }
        const Value* SZ = CB->getArgOperand(is_new ? 0 : 1);
        if (ET) {
          uint64_t es = DL.getTypeAllocSize(ET);
          std::string cnt;
          if (auto* CI = dyn_cast<ConstantInt>(SZ)) {
            if (es && CI->getZExtValue() % es == 0)
              cnt = std::to_string(CI->getZExtValue() / es) + "UL";
          } else if (es) // symbolic size: fixed-capacity object, exceeding the capacity is reported (like an unwinding assertion)
            cnt = "ll2c_cap(" + val(SZ) + " / " + std::to_string(es) + "UL)";
          if (!cnt.empty()) {
            if (is_new)
              return "((unsigned char*)malloc(sizeof(" + ty(ET) + ") * " + cnt + "))";
            return "((unsigned char*)calloc(" + arg(0) + " * " + cnt + ", sizeof(" + ty(ET) + ")))";
          }
        }
        if (is_new)
          return isa<ConstantInt>(SZ) ? "((unsigned char*)malloc(" + val(SZ) + "))"
                                      : "((unsigned char*)malloc(ll2c_cap(" + val(SZ) + " / 8UL) * 8UL))";
      }
    }
    if (F && F->isDeclaration() && F->getName() == "realloc" && !isa<ConstantInt>(CB->getArgOperand(1))) {
      need_realloc = true; // symbolic size: fixed-capacity byte object, exceeding the capacity is reported
      return "ll2c_realloc(" + arg(0) + ", " + arg(1) + ")";
    }
    if (F && F->isDeclaration() && F->getName() == "bcmp") // clang turns memcmp()==0 into bcmp(); CBMC only models memcmp
      return "((unsigned int)memcmp((void*)" + arg(0) + ", (void*)" + arg(1) + ", " + arg(2) + "))";
    std::string callee;
    FunctionType* FT = CB->getFunctionType();
    bool libc        = false;
    const Value* CV  = CB->getCalledOperand()->stripPointerCasts();
    if (auto* GA = dyn_cast<GlobalAlias>(CV))
      CV = GA->getAliasee()->stripPointerCasts();
    if (auto* DF = dyn_cast<Function>(CV)) {
      if (DF->getFunctionType() == FT) {
        callee = gn(DF);
        libc   = DF->isDeclaration() && is_libc(DF->getName());
      }
    }
    if (callee.empty())
      callee = "((" + ty(FT) + "*)" + val(CB->getCalledOperand()) + ")";
    std::string s = callee + "(";
    for (unsigned i = 0; i < CB->arg_size(); i++) {
      std::string a = arg(i);
      if (libc && CB->getArgOperand(i)->getType()->isPointerTy())
        a = "(void*)" + a;
      s += (i ? ", " : "") + a;
    }
    s += ")";
    if (libc && RT->isPointerTy())
      s = "((" + ty(RT) + ")" + s + ")";
    return s;
  }

  // ---------- functions ----------
  std::string proto(const Function& F)
  {
    FunctionType* FT = F.getFunctionType();
    std::string s    = ty(FT->getReturnType()) + " " + gn(&F) + "(";
    unsigned i       = 0;
    for (auto& A : F.args()) {
      s += (i ? ", " : "") + ty(A.getType()) + " a" + std::to_string(i);
      i++;
    }
    if (FT->isVarArg())
      s += i ? ", ..." : "";
    else if (i == 0)
      s += "void";
    return s + ")";
  }

  void phi_copies(const BasicBlock* From, const BasicBlock* To, std::string& out, const std::string& ind)
  {
    std::vector<std::pair<std::string, std::string>> cp;
    for (const PHINode& P : To->phis()) {
      const Value* in = P.getIncomingValueForBlock(From);
      if (isa<UndefValue>(in))
        continue;
      cp.push_back({vname[&P], val(in)});
    }
    if (cp.size() == 1)
      out += ind + cp[0].first + " = " + cp[0].second + ";\n";
    else if (cp.size() > 1) {
      for (auto& [d, s] : cp)
        out += ind + d + "_phi = " + s + ";\n";
      for (auto& [d, s] : cp)
        out += ind + d + " = " + d + "_phi;\n";
    }
  }

  void emit_function(const Function& F, raw_ostream& O)
  {
    vname.clear();
    std::map<const BasicBlock*, std::string> bbn;
    unsigned n = 0, b = 0;
    unsigned ai = 0;
    for (auto& A : F.args())
      vname[&A] = "a" + std::to_string(ai++);
    std::string decls, code;
    bool multi_phi = false;
    for (auto& BB : F) {
      bbn[&BB] = "bb" + std::to_string(b++);
      for (auto& I : BB) {
        if (I.getType()->isVoidTy())
          continue;
        std::string nm = "v" + std::to_string(n++);
        vname[&I]      = nm;
        decls += "  " + ty(I.getType()) + " " + nm + ";\n";
        if (isa<PHINode>(I)) {
          decls += "  " + ty(I.getType()) + " " + nm + "_phi;\n";
          multi_phi = true;
        }
      }
    }
    (void)multi_phi;
    // byval parameters: callee owns a private copy
    ai = 0;
    for (auto& A : F.args()) {
      if (A.hasByValAttr()) {
        Type* ET       = A.getParamByValType();
        std::string nm = "a" + std::to_string(ai);
        decls += "  " + ty(ET) + " " + nm + "_byval = *" + nm + ";\n";
        code += "  " + nm + " = &" + nm + "_byval;\n";
      }
      ai++;
    }
    for (auto& BB : F) {
      code += bbn[&BB] + ":;\n";
      for (auto& I : BB) {
        std::string lhs = I.getType()->isVoidTy() ? "" : vname[&I] + " = ";
        if (isa<PHINode>(I))
          continue;
        if (auto* AI = dyn_cast<AllocaInst>(&I)) {
          std::string mem = vname[&I] + "_mem";
          Type* ET        = AI->getAllocatedType();
          if (auto* CI = dyn_cast<ConstantInt>(AI->getArraySize())) {
            uint64_t cnt = CI->getZExtValue();
            if (cnt == 1) {
              decls += "  " + ty(ET) + " " + mem + ";\n";
              code += "  " + lhs + "&" + mem + ";\n";
            } else {
              decls += "  " + ty(ET) + " " + mem + "[" + std::to_string(cnt) + "];\n";
              code += "  " + lhs + "&" + mem + "[0];\n";
            }
          } else {
            code += "  " + lhs + "(" + ty(I.getType()) + ")malloc(sizeof(" + ty(ET) + ") * " + val(AI->getArraySize()) +
                    ");\n";
          }
          continue;
        }
        if (auto* SI = dyn_cast<StoreInst>(&I)) {
          // store through select(c, p, q): two guarded typed stores (CBMC would otherwise byte-update the whole object)
          if (auto* SEL = dyn_cast<SelectInst>(SI->getPointerOperand())) {
            code += "  if (" + val(SEL->getCondition()) + ") *" + val(SEL->getTrueValue()) + " = " + val(SI->getValueOperand()) + "; else *" +
                    val(SEL->getFalseValue()) + " = " + val(SI->getValueOperand()) + ";\n";
            continue;
          }
          code += "  *" + val(SI->getPointerOperand()) + " = " + val(SI->getValueOperand()) + ";\n";
          continue;
        }
        if (auto* CB = dyn_cast<CallInst>(&I)) {
          std::string e = call_expr(CB);
          if (e.empty())
            continue;
          code += "  " + lhs + e + ";\n";
          continue;
        }
        if (auto* IV = dyn_cast<InsertValueInst>(&I)) {
          std::string e = vname[&I];
          code += "  " + e + " = " + val(IV->getAggregateOperand()) + ";\n";
          Type* cur = IV->getType();
          for (unsigned k : IV->indices()) {
            if (cur->isStructTy()) {
              e += ".f" + std::to_string(k);
              cur = cast<StructType>(cur)->getElementType(k);
            } else {
              e += ".a[" + std::to_string(k) + "]";
              cur = cast<ArrayType>(cur)->getElementType();
            }
          }
          code += "  " + e + " = " + val(IV->getInsertedValueOperand()) + ";\n";
          continue;
        }
        if (auto* RI = dyn_cast<ReturnInst>(&I)) {
          code += RI->getReturnValue() ? "  return " + val(RI->getReturnValue()) + ";\n" : "  return;\n";
          continue;
        }
        if (auto* BI = dyn_cast<BranchInst>(&I)) {
          if (BI->isUnconditional()) {
            phi_copies(&BB, BI->getSuccessor(0), code, "  ");
            code += "  goto " + bbn[BI->getSuccessor(0)] + ";\n";
          } else {
            code += "  if (" + val(BI->getCondition()) + ") {\n";
            phi_copies(&BB, BI->getSuccessor(0), code, "    ");
            code += "    goto " + bbn[BI->getSuccessor(0)] + ";\n  } else {\n";
            phi_copies(&BB, BI->getSuccessor(1), code, "    ");
            code += "    goto " + bbn[BI->getSuccessor(1)] + ";\n  }\n";
          }
          continue;
        }
        if (auto* SW = dyn_cast<SwitchInst>(&I)) {
          code += "  switch (" + val(SW->getCondition()) + ") {\n";
          for (auto& C : SW->cases()) {
            code += "    case " + std::to_string(C.getCaseValue()->getZExtValue()) + "UL: {\n";
            phi_copies(&BB, C.getCaseSuccessor(), code, "      ");
            code += "      goto " + bbn[C.getCaseSuccessor()] + ";\n    }\n";
          }
          code += "    default: {\n";
          phi_copies(&BB, SW->getDefaultDest(), code, "      ");
          code += "      goto " + bbn[SW->getDefaultDest()] + ";\n    }\n  }\n";
          continue;
        }
        if (isa<UnreachableInst>(I)) {
          code += "  ll2c_unreachable();\n";
          if (!F.getReturnType()->isVoidTy())
            code += "  return " + cst(UndefValue::get(F.getReturnType())) + ";\n";
          else
            code += "  return;\n";
          continue;
        }
        if (isa<FenceInst>(I))
          continue;
        code += "  " + lhs + expr(&I) + ";\n";
      }
    }
    O << proto(F) << "\n{\n" << decls << code << "}\n\n";
  }

  void run(raw_ostream& O)
  {
    std::string fns, globs, protos;
    raw_string_ostream FO(fns), GO(globs), PO(protos);
    // prototypes
    std::string nondets;
    for (auto& F : M) {
      if (F.isIntrinsic())
        continue;
      StringRef n = F.getName();
      if (F.isDeclaration() && (is_libc(n) || n.startswith("__CPROVER_")))
        continue;
      if (F.isDeclaration() && F.use_empty())
        continue;
      if (n == "verif_witness")
        continue;
      PO << (F.hasLocalLinkage() ? "static " : "") << proto(F) << ";\n";
      if (F.isDeclaration() && n.startswith("nondet_") && F.arg_empty() && !F.getReturnType()->isVoidTy()) {
        // input source: nondeterministic under CBMC, read from the input vector natively; every draw is logged in ll2c_in[]
        std::string t = ty(F.getReturnType());
        nondets += proto(F) + "\n{\n  union { " + t + " v; unsigned long raw; } u;\n  u.raw = 0;\n"
                   "#ifdef __CPROVER__\n  " + t + " nd;\n  u.v = nd;\n#else\n  u.raw = ll2c_native_input();\n#endif\n"
                   "  if (ll2c_nin < LL2C_NIN) ll2c_in[ll2c_nin] = u.raw;\n  ll2c_nin++;\n  return u.v;\n}\n";
      } else if (F.isDeclaration() && n != "ll2c_trap" && n != "ll2c_unreachable" && n != "verif_witness")
        undefined.push_back(n.str());
    }
    // globals
    for (auto& G : M.globals()) {
      if (G.getName().startswith("llvm."))
        continue;
      std::string q = G.hasLocalLinkage() ? "static " : "";
      if (G.isThreadLocal())
        q += "__thread ";
      if (G.isDeclaration() && G.getName().startswith("_ZTVN10__cxxabiv1")) {
        // vtables of the libsupc++ type_info classes: only their address (+16) is used, as a tag inside typeinfo objects
        GO << ty(G.getValueType()) << " " << gn(&G) << "_store[8];\n#define " << gn(&G) << " " << gn(&G) << "_store[0]\n";
      } else if (G.isDeclaration())
        GO << "extern " << ty(G.getValueType()) << " " << gn(&G) << ";\n";
      else
        GO << q << ty(G.getValueType()) << " " << gn(&G) << ";\n";
    }
    std::string ginit;
    raw_string_ostream GI(ginit);
    for (auto& G : M.globals()) {
      if (G.getName().startswith("llvm.") || G.isDeclaration())
        continue;
      const Constant* Init = G.getInitializer();
      if (Init->isZeroValue() || isa<UndefValue>(Init))
        continue;
      std::string q = G.hasLocalLinkage() ? "static " : "";
      if (G.isThreadLocal())
        q += "__thread ";
      GI << q << ty(G.getValueType()) << " " << gn(&G) << " = " << cst(Init, true) << ";\n";
    }
    for (auto& F : M)
      if (!F.isDeclaration())
        emit_function(F, FO);
    O << "/* generated by ll2c from " << M.getName() << " */\n";
    {
      // no libc headers (the module may define functions with libc names, e.g. the harness's abort()); fixed prototypes instead
      static const char* protos[][2] = {
          {"malloc", "void* malloc(unsigned long);"}, {"free", "void free(void*);"}, {"calloc", "void* calloc(unsigned long, unsigned long);"},
          {"realloc", "void* realloc(void*, unsigned long);"}, {"memcpy", "void* memcpy(void*, const void*, unsigned long);"},
          {"memmove", "void* memmove(void*, const void*, unsigned long);"}, {"memset", "void* memset(void*, int, unsigned long);"},
          {"memcmp", "int memcmp(const void*, const void*, unsigned long);"}, {"bcmp", "int bcmp(const void*, const void*, unsigned long);"},
          {"strlen", "unsigned long strlen(const char*);"}, {"strcmp", "int strcmp(const char*, const char*);"},
          {"strncmp", "int strncmp(const char*, const char*, unsigned long);"}, {"strcpy", "char* strcpy(char*, const char*);"},
          {"strchr", "char* strchr(const char*, int);"}, {"memchr", "void* memchr(const void*, int, unsigned long);"},
          {"abort", "void abort(void);"}, {"exit", "void exit(int);"}, {"strtod", "double strtod(const char*, char**);"},
          {"strtol", "long strtol(const char*, char**, int);"}, {"strerror", "char* strerror(int);"}, {"getpid", "int getpid(void);"},
          {"close", "int close(int);"}, {"fabs", "double fabs(double);"}, {"floor", "double floor(double);"}, {"ceil", "double ceil(double);"},
          {"sqrt", "double sqrt(double);"}, {"fmod", "double fmod(double, double);"}, {"fmodf", "float fmodf(float, float);"},
          {"fabsf", "float fabsf(float);"}, {"fmax", "double fmax(double, double);"}, {"fmin", "double fmin(double, double);"},
          {"trunc", "double trunc(double);"}, {"round", "double round(double);"}, {"sqrtf", "float sqrtf(float);"},
          {"floorf", "float floorf(float);"}, {"ceilf", "float ceilf(float);"}, {"fmaxf", "float fmaxf(float, float);"},
          {"fminf", "float fminf(float, float);"}, {"truncf", "float truncf(float);"}, {"roundf", "float roundf(float);"}, {nullptr, nullptr}};
      for (auto* p = protos; (*p)[0]; p++) {
        Function* DF = M.getFunction((*p)[0]);
        if (!DF || DF->isDeclaration())
          O << (*p)[1] << "\n";
      }
    }
    O << "#ifndef __CPROVER__\n#include \"ll2c_native.h\"\n#endif\n";
    O << "#ifdef __CPROVER__\nstatic void ll2c_trap(void) { __CPROVER_assert(0, \"llvm.trap reached\"); __CPROVER_assume(0); }\n"
         "static void ll2c_unreachable(void) { __CPROVER_assert(0, \"llvm unreachable reached\"); __CPROVER_assume(0); }\n#endif\n";
    O << "#ifdef __CPROVER__\n#define LL2C_PDIFF(a, b) (__CPROVER_same_object((a), (b)) ? (unsigned long)(__CPROVER_POINTER_OFFSET(a) - __CPROVER_POINTER_OFFSET(b)) "
         ": (unsigned long)(a) - (unsigned long)(b))\n#define LL2C_PLE(a, b) (!__CPROVER_same_object((a), (b)) || __CPROVER_POINTER_OFFSET(a) <= __CPROVER_POINTER_OFFSET(b))\n"
         "#else\n#define LL2C_PDIFF(a, b) ((unsigned long)(a) - (unsigned long)(b))\n#define LL2C_PLE(a, b) ((unsigned long)(a) <= (unsigned long)(b))\n#endif\n";
    O << "static void ll2c_witness(void)\n{\n#ifdef LL2C_WITNESS\n  __CPROVER_assert(0, \"witness reachable\");\n#endif\n}\n";
    O << "#ifndef LL2C_CAP\n#define LL2C_CAP 8UL\n#endif\n";
    O << "static inline unsigned long ll2c_cap(unsigned long n) { __CPROVER_assert(n <= LL2C_CAP, \"allocation capacity bound\"); return LL2C_CAP; }\n";
    emit_types(O);
    O << "#ifndef LL2C_MEMCAP\n#define LL2C_MEMCAP 8UL\n#endif\n";
    for (auto& [n, h] : mem_helpers)
      O << h;
    if (need_realloc)
      O << "#ifdef __CPROVER__\nstatic unsigned char* ll2c_realloc(unsigned char* p, unsigned long n)\n{\n"
           "  __CPROVER_assert(n <= LL2C_MEMCAP, \"allocation capacity bound\");\n  unsigned char* q = malloc(LL2C_MEMCAP);\n"
           "  if (p) {\n    unsigned long old = __CPROVER_OBJECT_SIZE(p);\n    for (unsigned long i = 0; i < LL2C_MEMCAP && i < old && i < n; i++)\n      q[i] = p[i];\n"
           "    free(p);\n  }\n  return q;\n}\n#else\n#define ll2c_realloc(p, n) ((unsigned char*)realloc((p), (n)))\n#endif\n";
    O << "#ifndef LL2C_NIN\n#define LL2C_NIN 64\n#endif\nunsigned long ll2c_in[LL2C_NIN];\nunsigned int ll2c_nin;\n";
    O << GO.str() << PO.str() << GI.str() << "\n" << nondets << FO.str();
    // entry wrapper: runs the kept static initialisers (if any) and then the harness entry
    O << "void ll2c_main(void)\n{\n";
    if (auto* GC = M.getGlobalVariable("llvm.global_ctors")) {
      if (auto* CA = dyn_cast<ConstantArray>(GC->getInitializer()))
        for (auto& E : CA->operands()) {
          auto* CS = cast<ConstantStruct>(E);
          if (auto* F = dyn_cast<Function>(CS->getOperand(1)->stripPointerCasts()))
            O << "  " << gn(F) << "();\n";
        }
    }
    O << "  " << gn(M.getFunction(entry)) << "();\n}\n";
    O << "#ifndef __CPROVER__\nint main(void) { ll2c_main(); ll2c_native_end(); return 0; }\n#endif\n";
  }
};

int main(int argc, char** argv)
{
  if (argc < 4)
    die("usage: ll2c in.ll out.c entry [--keep-ctors]");
  bool keep_ctors = argc > 4 && std::string(argv[4]) == "--keep-ctors";
  LLVMContext C;
  SMDiagnostic E;
  auto M = parseIRFile(argv[1], E, C);
  if (!M) {
    E.print("ll2c", errs());
    return 1;
  }
  std::error_code EC;
  std::string outc = argv[2];
  std::string entry = argv[3];
  if (!M->getFunction(entry))
    die("entry function not found: " + entry);
  // static initialisers: dropped by default (globals keep their constant initialiser or zero); the list is recorded
  {
    raw_fd_ostream CT(outc + ".ctors", EC);
    if (auto* GC = M->getGlobalVariable("llvm.global_ctors")) {
      if (auto* CA = dyn_cast<ConstantArray>(GC->getInitializer()))
        for (auto& El : CA->operands())
          if (auto* F = dyn_cast<Function>(cast<ConstantStruct>(El)->getOperand(1)->stripPointerCasts()))
            CT << F->getName() << "\n";
      if (!keep_ctors)
        GC->eraseFromParent();
    }
    if (auto* GD = M->getGlobalVariable("llvm.global_dtors"))
      GD->eraseFromParent();
    legacy::PassManager PM;
    PM.add(createGlobalDCEPass());
    PM.run(*M);
  }
  // a declared function that the entry can reach but that has no body gets one that reports the call (never an unconstrained value)
  {
    std::vector<Function*> todo;
    for (auto& F : *M) {
      StringRef n = F.getName();
      if (!F.isDeclaration() || F.isIntrinsic() || F.use_empty() || Tr::is_libc(n) || n.startswith("__CPROVER_") ||
          n.startswith("nondet_") || n == "verif_witness" || n == "_Znwm" || n == "_Znam" || n == "__gxx_personality_v0")
        continue;
      todo.push_back(&F);
    }
    // declared-only global variables (log categories, typeinfo of classes defined elsewhere, ...) become zero-initialised definitions
    {
      raw_fd_ostream EX(outc + ".externs", EC);
      for (auto& G : M->globals())
        if (G.isDeclaration() && !G.getName().startswith("_ZTVN10__cxxabiv1") && !G.getName().startswith("llvm.")) {
          G.setInitializer(Constant::getNullValue(G.getValueType()));
          G.setLinkage(GlobalValue::InternalLinkage);
          G.setConstant(false);
          EX << G.getName() << "\n";
        }
    }
    FunctionType* AT = FunctionType::get(Type::getVoidTy(C), {Type::getInt1Ty(C), Type::getInt8PtrTy(C)}, false);
    FunctionType* UT = FunctionType::get(Type::getVoidTy(C), {Type::getInt1Ty(C)}, false);
    FunctionCallee FA = M->getOrInsertFunction("__CPROVER_assert", AT);
    FunctionCallee FU = M->getOrInsertFunction("__CPROVER_assume", UT);
    for (Function* F : todo) {
      BasicBlock* BB = BasicBlock::Create(C, "entry", F);
      IRBuilder<> B(BB);
      Value* msg = B.CreateGlobalStringPtr("no body: " + F->getName().str());
      Value* a0  = msg;
      if (FA.getFunctionType()->getParamType(1) != msg->getType())
        a0 = B.CreateBitCast(msg, FA.getFunctionType()->getParamType(1));
      B.CreateCall(FA, {B.getFalse(), a0});
      B.CreateCall(FU, {B.getFalse()});
      B.CreateUnreachable();
      F->setLinkage(GlobalValue::InternalLinkage);
      F->setPersonalityFn(nullptr);
    }
  }
  {
    raw_fd_ostream LL(outc + ".ll", EC);
    M->print(LL, nullptr);
  }
  Tr T(*M);
  T.entry = entry;
  std::string out;
  raw_string_ostream OS(out);
  T.run(OS);
  raw_fd_ostream F(outc, EC);
  F << OS.str();
  raw_fd_ostream U(outc + ".undef", EC);
  for (auto& n : T.undefined)
    U << n << "\n";
  raw_fd_ostream FN(outc + ".funcs", EC);
  for (auto& Fn : *M)
    if (!Fn.isDeclaration())
      FN << Fn.getName() << "\n";
  return 0;
}
