#!/usr/bin/env python3
import json, sys
pid = sys.argv[1]
t = open('/verif/tools/agent_prompt.txt').read()
for l in open('/verif/properties.jsonl'):
    p = json.loads(l)
    if p['id'] == pid:
        extra = sys.argv[2] if len(sys.argv) > 2 else ''
        print(t.replace('{ID}', pid).replace('{TITLE}', p['title']).replace('{STATEMENT}', p['statement']).replace('{QUANT}', p['quantifier']['text']).replace('{WT}', '/tmp/sa_' + pid + extra))
