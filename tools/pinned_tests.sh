#!/bin/bash
# usage: pinned_tests.sh <build-dir>   runs the 104 pinned tests of BASELINE.json in that build dir; prints failures; exit 0 iff all pass
B=$1
python3 - "$B" <<'PY'
import json, subprocess, sys, re
b = json.load(open('/root/.vp/BASELINE.json'))
names = sorted(set(t.split('::')[0] for t in b['stable_pass']))
rx = '^(' + '|'.join(re.escape(n) for n in names) + ')$'
p = subprocess.run(['ctest', '--test-dir', sys.argv[1], '-j8', '--timeout', '900', '-R', rx], capture_output=True, text=True)
out = p.stdout
m = re.search(r'(\d+)% tests passed, (\d+) tests failed out of (\d+)', out)
print(m.group(0) if m else out[-2000:])
failed = re.findall(r'^\s+\d+ - (\S+) \(', out, re.M)
if failed: print('FAILED:', failed)
sys.exit(0 if m and m.group(2) == '0' and int(m.group(3)) == len(names) else 1)
PY
