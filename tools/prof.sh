#!/bin/bash
# usage: prof.sh <query workdir> [unwind] [secs]  — where does symbolic execution spend its time?
d=$1; u=${2:-8}; t=${3:-40}
(timeout $t cbmc $d/out.c --function ll2c_main --unwind $u --unwinding-assertions --no-malloc-may-fail --drop-unused-functions -DLL2C_WITNESS --verbosity 9 > /tmp/prof.log 2>&1; true)
echo "lines: $(wc -l < /tmp/prof.log)"
grep -E "Unwinding (loop|recursion)" /tmp/prof.log | awk '{print $3}' | sort | uniq -c | sort -rn | head -10
grep -E "Runtime|size of program|VCC" /tmp/prof.log
grep -n "Unwinding" /tmp/prof.log | head -${4:-12} | cut -c1-170
