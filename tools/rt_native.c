/* native runtime shared by (a) the clang-compiled IR of harness+real code (replay) and (b) the gcc-compiled generated C
 * (translator validation).  Inputs: file named by $LL2C_INPUT, one raw 64-bit value per token (hex or decimal).
 * Output protocol on stdout: one line per evaluated assertion, "A ok|FAIL <label>"; "ASSUME-STOP" / "END" at the end. */
#include <stdio.h>
#include <stdlib.h>
#include <string.h>
static FILE* in;
static int opened;
unsigned long ll2c_native_input(void)
{
  if (!opened) {
    const char* p = getenv("LL2C_INPUT");
    in            = p ? fopen(p, "r") : 0;
    opened        = 1;
  }
  char tok[64];
  if (in && fscanf(in, "%63s", tok) == 1)
    return strtoul(tok, 0, 0);
  return 0;
}
void ll2c_native_end(void)
{
  puts("END");
  fflush(stdout);
}
void __CPROVER_assert(_Bool c, const char* msg)
{
  printf("A %s %s\n", c ? "ok" : "FAIL", msg);
  fflush(stdout);
}
void __CPROVER_assume(_Bool c)
{
  if (!c) {
    puts("ASSUME-STOP");
    fflush(stdout);
    _Exit(0);
  }
}
void ll2c_trap(void)
{
  puts("A FAIL llvm.trap reached");
  fflush(stdout);
  _Exit(0);
}
void ll2c_unreachable(void)
{
  puts("A FAIL llvm unreachable reached");
  fflush(stdout);
  _Exit(0);
}
#ifdef LL2C_IR_NATIVE
/* input sources for the IR build (the generated C defines its own wrappers) */
#define ND(name, T) \
  T name(void) { union { T v; unsigned long raw; } u; u.raw = ll2c_native_input(); return u.v; }
ND(nondet_int, int)
ND(nondet_uint, unsigned)
ND(nondet_long, long)
ND(nondet_ulong, unsigned long)
ND(nondet_char, char)
ND(nondet_uchar, unsigned char)
ND(nondet_short, short)
ND(nondet_ushort, unsigned short)
ND(nondet_double, double)
ND(nondet_float, float)
void ENTRY(void);
int main(void)
{
  ENTRY();
  ll2c_native_end();
  return 0;
}
#endif
#ifdef LL2C_IR_NATIVE
void verif_witness(void) {}
#endif
