#!/bin/bash
# runs every registered check (quick by default) sequentially; summary in .work/run_all_<tier>.log
cd "$(dirname "$0")/.."
tier=${1:-quick}
mkdir -p .work
: > .work/run_all_$tier.log
for id in $(python3 -c "import json;print(' '.join(c['property_id'] for c in json.load(open('MANIFEST.json'))['checks']))"); do
  s=$(date +%s)
  VERIF_SEED=${VERIF_SEED:-1} VERIF_VERBOSE=1 ./check $id $tier > .work/run_${tier}_$id.out 2>&1; rc=$?
  echo "$id exit=$rc $(( $(date +%s)-s ))s $(tail -1 .work/run_${tier}_$id.out | cut -c1-160)" >> .work/run_all_$tier.log
done
echo ALLDONE >> .work/run_all_$tier.log
