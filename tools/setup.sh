#!/bin/bash
# MANIFEST.setup_cmd: build the framework from files on disk only (offline).
set -e
cd "$(dirname "$0")/.."
mkdir -p .cache/shim
echo "[setup] building ll2c against libLLVM-14"
clang++-14 -O1 -std=c++17 tools/ll2c.cpp $(llvm-config-14 --cxxflags | sed 's/-std=[^ ]*//;s/-fno-exceptions//') $(llvm-config-14 --ldflags --libs) -o .cache/ll2c.tmp && mv -f .cache/ll2c.tmp .cache/ll2c  # (atomic replace: a check may be running)
cat > .cache/shim/cvc5 <<'S'
#!/bin/sh
exec /usr/bin/cvc5 --solve-bv-as-int=sum "$@"
S
chmod +x .cache/shim/cvc5
# generated headers of the real build; regenerate by a cmake configure only if the build tree is missing
if [ ! -f /repo/_build/include/simgrid/config.h ]; then
  echo "[setup] /repo/_build headers missing: configuring into .cache/repo_build"
  cmake -G Ninja -S /repo -B .cache/repo_build -DCMAKE_BUILD_TYPE=Release >/dev/null
fi
for t in cbmc clang++-14 opt-14 llvm-link-14 kissat z3 cvc5; do command -v $t >/dev/null || { echo "missing tool $t"; exit 1; }; done
echo "[setup] ok"
